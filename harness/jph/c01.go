package jph

import (
	"regexp"
	"fmt"
	"strings"

	"github.com/AsaiYusuke/jsonpath"
)

// C01 — retrieval returns exactly what the path selects: differential against Spec.
//
// What a path selects must not depend on what was parsed before, nor on whether the leading `$`
// is written: in 20% of the cases a Parse that FAILS half-way (drawn from c19FailPaths: inside a
// filter operand, a nested filter, a union …) is made right before the case's own Parse, and 10%
// of the paths whose first step is a name, a wildcard, a bracket or a filter are spelled without
// the leading `$` (the recorded text of a first dot-name / `*` then lacks its dot, as in C18).
// One case in four draws the member names of 45% of its objects from families of long names that agree in their
// first 7, 8, 9 or more bytes (GenOpts.LongKeys); one case in sixteen is a comparison filter over numbers at the
// edge of float64 / int64 in a UseNumber document, with the model-free oracle of b10_helpers.go.

type c01 struct{}

func init() { Props["C01"] = c01{} }

func (c01) Count(tier string) int {
	if tier == "thorough" {
		return 200000
	}
	return 6000
}

func stepTags(p *Path) []string {
	var tags []string
	names := []string{"child", "wild", "multi", "union", "filter", "desc"}
	for _, s := range p.Steps {
		if s.Kind == StDesc {
			tags = append(tags, "step:desc+"+names[s.Inner.Kind])
		} else {
			tags = append(tags, "step:"+names[s.Kind])
		}
	}
	for _, f := range p.Fns {
		if f.Agg {
			tags = append(tags, "fn:agg")
		} else {
			tags = append(tags, "fn:filter")
		}
	}
	return tags
}

func shapeKey(p *Path) string {
	k := ""
	for _, s := range p.Steps {
		k += fmt.Sprint(int(s.Kind))
		if s.Kind == StDesc {
			k += fmt.Sprint(int(s.Inner.Kind))
		}
		if s.Kind == StFilter {
			k += "{" + queryShape(s.Q) + "}"
		}
	}
	for _, f := range p.Fns {
		if f.Agg {
			k += "A"
		} else {
			k += "F"
		}
	}
	return k
}

func queryShape(q *Query) string {
	switch q.Kind {
	case QOr:
		return "(" + queryShape(q.A) + "|" + queryShape(q.B) + ")"
	case QAnd:
		return "(" + queryShape(q.A) + "&" + queryShape(q.B) + ")"
	case QExist:
		if q.Neg {
			return "!e"
		}
		return "e"
	case QCmp:
		ok := func(o *Operand) string {
			if o.IsLit {
				return "l"
			}
			if o.Path.Head == HeadCur {
				return "@"
			}
			return "$"
		}
		return ok(q.L) + OpNames[q.Op] + ok(q.R)
	}
	return "re"
}

// the failing parses this worker process has made so far (newest last, at most 6): named in the
// record of a `$`-less case, whose outcome they must not influence
var c01EarlierFails []string

func (c01) Exec(seed int64, i int, tier string) Record {
	if i%1500 == 700 {
		return c01HugeCase(CaseRng(seed, "C01", i)) // class huge (b12_helpers.go)
	}
	switch i % 16 {
	case 6:
		return c01LitLeftCase(CaseRng(seed, "C01", i))
	case 14:
		return c01ReentCase(CaseRng(seed, "C01", i))
	case 10:
		return c01SecondCallCase(CaseRng(seed, "C01", i))
	case 13:
		return b15Case("C01", CaseRng(seed, "C01", i)) // classes overlap-probe / kth-fault-probe (b15_overlap.go)
	case 1:
		if (i/16)%2 == 0 {
			return c01AggOperandCase(CaseRng(seed, "C01", i))
		}
	case 9:
		if (i/16)%2 == 0 {
			return c01RegexDirectCase(CaseRng(seed, "C01", i))
		}
	case 12:
		if (i/16)%2 == 0 {
			return c01AggContainersCase(CaseRng(seed, "C01", i)) // b14_helpers.go
		}
	case 4:
		if (i/16)%2 == 0 {
			return c01SecondCallWideCase(CaseRng(seed, "C01", i)) // b14_helpers.go
		}
	case 2:
		// numbers at the edge of float64 / int64 in a UseNumber document (b10_helpers.go): exactly the members the
		// comparison holds for — a number compares as the float64 nearest to its text, ±Inf beyond the range
		rec := b10EdgeRun(CaseRng(seed, "C01", i), false)
		rec.Tags = append(rec.Tags, "class:number-edge", "step:child", "step:filter", "decode:jnum")
		return rec
	}
	r := CaseRng(seed, "C01", i)
	o := DefaultOpts()
	switch i % 8 {
	case 3:
		// nested filters: existence tests over value-group paths, `$`-rooted operands inside them
		o.VgExistPct, o.RootBias = 70, 60
	case 5:
		o.ErrBias = 3
	}
	// one case in four: objects whose member names agree in their first 7, 8, 9 … bytes (byte order vs length order)
	o.LongKeys = i%4 == 1
	doc, p := GenCase(r, o)
	if i%8 == 3 && r.Chance(60) {
		doc, p = genNestedRootCase(r)
	}
	text := Render(p, r)
	jn := r.Chance(40)
	if jn {
		doc = ToJnum(doc)
	}
	cfg := Config(false, nil)
	var extraTags []string
	info := map[string]interface{}{}
	if len(p.Steps) > 0 && p.Steps[0].Kind != StDesc && r.Chance(10) {
		// the leading `$` omitted
		at := strings.IndexByte(text, '$')
		first := p.Steps[0]
		switch {
		case first.Kind == StChild && !(first.Bracket || !DotSpellable(first.Key)):
			text = text[:at] + text[at+2:]
			first.Text = first.Key
			extraTags = append(extraTags, "spell:name… ($ omitted)")
		case first.Kind == StWild && !first.Bracket:
			text = text[:at] + text[at+2:]
			first.Text = "*"
			extraTags = append(extraTags, "spell:*… ($ omitted)")
		case first.Kind == StFilter:
			text = text[:at] + text[at+1:]
			extraTags = append(extraTags, "spell:[?(…)]… ($ omitted)")
		default:
			text = text[:at] + text[at+1:]
			extraTags = append(extraTags, "spell:[…]… ($ omitted)")
		}
	}
	dollarless := len(extraTags) > 0
	if o.LongKeys {
		extraTags = append(extraTags, longKeyTags(doc)...)
	}
	if r.Chance(20) {
		// a Parse that fails half-way right before: whatever it leaves behind must not reach this case
		fp := c19FailPaths[r.Intn(len(c19FailPaths))]
		SafeParse(fp.path, &cfg)
		info["parsed_before (fails)"] = fp.path
		c01EarlierFails = append(c01EarlierFails, fp.path)
		if len(c01EarlierFails) > 6 {
			c01EarlierFails = c01EarlierFails[1:]
		}
		extraTags = append(extraTags, "history:failed-parse-before", "history:failed-parse-before:"+fp.kind)
	}
	if dollarless && len(c01EarlierFails) > 0 {
		info["failed_parses_earlier_in_this_process"] = append([]string{}, c01EarlierFails...)
	}
	return c01Check(text, p, p.Sexp(), doc, jn, &cfg, extraTags, info, nil)
}

// c01Check: parse (with the tree hook), call, and compare with the specification and the model.
// psexp is the path as the model is asked about it; afterParse (optional) sees the parsed function
// before it is called and may return a finding after the call.
func c01Check(text string, p *Path, psexp string, doc interface{}, jn bool, cfgp *jsonpath.Config, extraTags []string, info map[string]interface{},
	afterParse func(f Parsed) func() string) Record {
	f, out, tree := ParseTree(text, cfgp)
	var afterCall func() string
	if f != nil {
		if afterParse != nil {
			afterCall = afterParse(f)
		}
		out = SafeCall(f, doc)
	}
	rec := Record{Text: text, Doc: JSONText(doc), Tags: append(stepTags(p), extraTags...)}
	if afterCall != nil {
		if msg := afterCall(); msg != "" {
			rec.Viol, rec.Class = msg, "abnormal"
			if len(info) > 0 {
				rec.Info = info
			}
			return rec
		}
	}
	if len(info) > 0 {
		rec.Info = info
	}
	if jn {
		rec.Tags = append(rec.Tags, "decode:jnum")
	}
	if !out.OK && (out.ErrKind == "syntax" || out.ErrKind == "argument" || out.ErrKind == "notfound" || out.ErrKind == "notsupported") {
		rec.Viol = "generated path was rejected by Parse: " + out.Msg
		rec.Class = "parse-reject"
		return rec
	}
	if out.ErrKind == "panic" || out.NilNil || out.Both || (len(out.ErrKind) > 5 && out.ErrKind[:5] == "other") {
		rec.Viol = "abnormal outcome: " + out.Detail()
		rec.Class = "abnormal"
		return rec
	}
	exp := "(q err)"
	if out.OK {
		exp = "(q ok"
		for _, v := range out.Vals {
			exp += " " + ValSexp(v)
		}
		exp += ")"
		rec.Tags = append(rec.Tags, "outcome:ok")
	} else {
		rec.Tags = append(rec.Tags, "outcome:err-"+out.ErrKind)
	}
	rec.Q = []LeanQ{{Driver: "spec", Line: "(q run " + psexp + " " + ValSexp(doc) + ")", Expect: exp, What: "result vs Spec.run"},
		{Driver: "impl", Line: "(q errk f " + psexp + " " + ValSexp(doc) + ")", Expect: out.ImplExpect(false), What: "result vs Impl.run"},
		{Driver: "impl", Line: "(q tree f " + psexp + ")", Expect: "(q " + tree[1:], What: "parsed tree vs Build.build"},
		{Driver: "impl", Line: "(q den f " + psexp + " " + ValSexp(doc) + ")", Expect: exp, What: "result vs TSem.run (tree-level denotation)"}}
	// non-trivial: selects ≥1 value through ≥2 steps or a filter / `..` / function
	nontriv := false
	if out.OK {
		if len(p.Steps) >= 2 || len(p.Fns) > 0 {
			nontriv = true
		}
		for _, s := range p.Steps {
			if s.Kind == StFilter || s.Kind == StDesc {
				nontriv = true
			}
		}
	}
	if nontriv {
		rec.Key = shapeKey(p) + "/" + fmt.Sprint(len(out.Vals) > 1) + fmt.Sprint(jn)
	}
	return rec
}

// genNestedRootCase: a filter whose operand path contains a filter with a `$`-rooted operand,
// over records whose own fields differ from the root's (so that evaluating the inner `$` against
// anything but the document root changes the selection).
func genNestedRootCase(r *Rng) (interface{}, *Path) {
	num := func() interface{} { return float64(r.Range(0, 3)) }
	rec := func() interface{} {
		m := map[string]interface{}{}
		for _, k := range []string{"c", "d"} {
			if r.Chance(80) {
				m[k] = num()
			}
		}
		return m
	}
	group := func() interface{} {
		n := r.Range(0, 3)
		items := make([]interface{}, n)
		for i := range items {
			items[i] = rec()
		}
		g := map[string]interface{}{"b": items}
		if r.Chance(60) {
			g["d"] = num() // a decoy: the member has its own `d`
		}
		return g
	}
	n := r.Range(1, 4)
	groups := make([]interface{}, n)
	for i := range groups {
		groups[i] = group()
	}
	doc := map[string]interface{}{"a": groups}
	if r.Chance(85) {
		doc["d"] = num()
	}
	inner := &Query{Kind: QCmp, Op: r.Weighted([]int{40, 20, 10, 10, 10, 10}),
		L: &Operand{Path: &Path{Head: HeadCur, Steps: []*Step{{Kind: StChild, Key: r.Pick([]string{"c", "d"})}}}},
		R: &Operand{Path: &Path{Head: HeadRoot, Steps: []*Step{{Kind: StChild, Key: "d"}}}}}
	if r.Chance(40) {
		inner.L, inner.R = inner.R, inner.L
	}
	opnd := &Path{Head: HeadCur, Steps: []*Step{{Kind: StChild, Key: "b"}, {Kind: StFilter, Q: inner}}}
	outer := &Query{Kind: QExist, Neg: r.Chance(25), P: opnd}
	var q *Query = outer
	if r.Chance(30) {
		q = &Query{Kind: QAnd, A: outer, B: &Query{Kind: QExist, P: &Path{Head: HeadCur, Steps: []*Step{{Kind: StChild, Key: "b"}}}}}
	}
	p := &Path{Head: HeadRoot, Steps: []*Step{{Kind: StChild, Key: "a"}, {Kind: StFilter, Q: q}}}
	if r.Chance(30) {
		p.Steps = append(p.Steps, &Step{Kind: StChild, Key: "d"})
	}
	return doc, p
}

// ---------- class second-call: the parsed function called again after the SAME document object was updated in place ----------
//
// What a parsed function returns is what the path selects from the document as it is NOW: the first call (result
// discarded) must leave nothing behind in the parsed tree that answers for the old content. The record, the
// specification and the model all see the updated document.
func c01SecondCallCase(r *Rng) Record {
	o := DefaultOpts()
	o.RootBias = 50
	var doc interface{}
	var p *Path
	cfg := Config(false, nil)
	for try := 0; try < 6; try++ {
		doc, p = GenCase(r, o)
		if Run(Render(p, nil), doc, &cfg).OK {
			break
		}
	}
	text := Render(p, r)
	jn := r.Chance(30)
	if jn {
		doc = ToJnum(doc)
	}
	updated := false
	after := func(f Parsed) func() string {
		SafeCall(f, doc)
		variant := c05Mutate(r, doc, 60)
		if jn {
			variant = ToJnum(variant)
		}
		updated = c05OverwriteInPlace(doc, variant)
		return func() string { return "" }
	}
	rec := c01Check(text, p, p.Sexp(), doc, jn, &cfg, []string{"class:second-call-after-in-place-update"}, map[string]interface{}{}, after)
	if !updated {
		rec.Tags = append(rec.Tags, "second-call:document-not-updatable")
	}
	return rec
}

// ---------- class agg-operand: a comparison between an aggregate-collapsed path and a per-member path ----------
//
// `$.a[?($.lim.max() < @.v)]`, `$.a[?(@.v >= $.lim[*].count())]`, `$.a[?(@.w.max() == $.k)]` …: the aggregate operand is
// one value compared with EVERY member's value, on whichever side it is written. Expected values: the specification.
func c01AggOperandCase(r *Rng) Record {
	num := func() interface{} { return float64(r.Range(0, 4)) }
	n := r.Range(2, 5)
	recs := make([]interface{}, n)
	for i := range recs {
		m := map[string]interface{}{}
		if r.Chance(85) {
			m["v"] = num()
		}
		w := make([]interface{}, r.Range(0, 3))
		for j := range w {
			w[j] = num()
		}
		m["w"] = w
		recs[i] = m
	}
	lim := make([]interface{}, r.Range(1, 4))
	for j := range lim {
		lim[j] = num()
	}
	var doc interface{} = map[string]interface{}{"a": recs, "lim": lim, "k": num()}
	child := func(k string) *Step { return &Step{Kind: StChild, Key: k, Bracket: r.Chance(15)} }
	agg := Fn{Agg: true, Name: []string{"max", "count", "first"}[r.Weighted([]int{50, 25, 25})]}
	var aggPath, other *Path
	switch r.Weighted([]int{45, 25, 30}) {
	case 0:
		aggPath = &Path{Head: HeadRoot, Steps: []*Step{child("lim")}, Fns: []Fn{agg}}
		other = &Path{Head: HeadCur, Steps: []*Step{child("v")}}
	case 1:
		aggPath = &Path{Head: HeadRoot, Steps: []*Step{child("lim"), {Kind: StWild, Bracket: true}}, Fns: []Fn{agg}}
		other = &Path{Head: HeadCur, Steps: []*Step{child("v")}}
	default:
		aggPath = &Path{Head: HeadCur, Steps: []*Step{child("w")}, Fns: []Fn{agg}}
		other = &Path{Head: HeadRoot, Steps: []*Step{child("k")}}
	}
	q := &Query{Kind: QCmp, Op: r.Weighted([]int{20, 15, 17, 16, 16, 16}), L: &Operand{Path: aggPath}, R: &Operand{Path: other}}
	side := "aggregate-left"
	if r.Chance(45) {
		q.L, q.R = q.R, q.L
		side = "aggregate-right"
	}
	p := &Path{Head: HeadRoot, Steps: []*Step{child("a"), {Kind: StFilter, Q: q}}}
	if r.Chance(30) {
		p.Steps = append(p.Steps, child("v"))
	}
	text := Render(p, r)
	jn := r.Chance(30)
	if jn {
		doc = ToJnum(doc)
	}
	cfg := Config(false, nil)
	return c01Check(text, p, p.Sexp(), doc, jn, &cfg, []string{"class:agg-operand", "agg-operand:" + side}, map[string]interface{}{}, nil)
}

// ---------- class regex-direct: `=~` and escaped string literals against an oracle that needs no model ----------
//
// `$[?(@.s =~ /PAT/)]` selects exactly the members whose `s` is a string that Go's regexp (the semantics the library
// documents) matches; `$[?(@.s == 'a\u0041')]` compares with the literal as the grammar reads it (a backslash in a filter
// string literal only removes itself). The path text is written by hand here, the expectation computed directly.
var c01RegexPats = []string{`^colou?r`, `^ab|cd`, `^a*b`, `^ab{0,1}c`, `^(ab)?c`, `b+$`, `^a.c$`, `[0-9]+`, `^[^a]`, `(?i)^AB`, `^a|^b`, `a?`, `^x*$`, `^ab?`, `^abc|^abd`, `o{2}`, `^\d+$`, `\.`, `^a\/b`}
var c01RegexSubjects = []string{"color", "colour", "colr", "cd", "xcd", "ab", "abc", "ac", "aab", "b", "bb", "abd", "a.c", "a/b", "AB", "12", "", "x", "xx", "foo", "a"}

func c01RegexDirectCase(r *Rng) Record {
	n := r.Range(2, 6)
	recs := make([]interface{}, n)
	for i := range recs {
		m := map[string]interface{}{}
		switch r.Weighted([]int{80, 10, 10}) {
		case 0:
			m["s"] = r.Pick(c01RegexSubjects)
		case 1:
			m["s"] = float64(r.Range(0, 3))
		}
		recs[i] = m
	}
	cfg := Config(false, nil)
	var text, what string
	var keep func(v interface{}) bool
	if r.Chance(65) {
		pat := r.Pick(c01RegexPats)
		re := regexp.MustCompile(pat)
		text = "$[?(@.s =~ /" + pat + "/)]"
		what = "regex:" + pat
		keep = func(v interface{}) bool { s, ok := v.(string); return ok && re.MatchString(s) }
	} else {
		// an escaped literal: members equal to the literal WITHOUT the backslash, and decoys equal to what other
		// readings of the escape would give
		raws := []struct{ raw, val, decoy string }{{`a\u0041`, "au0041", "aA"}, {`\t`, "t", "\t"}, {`x\ny`, "xny", "x\ny"}, {`\u00e9`, "u00e9", "é"}, {`a\\b`, `a\b`, `a\\b`}, {`q\'`, "q'", `q\'`}}
		c := raws[r.Intn(len(raws))]
		for i := range recs {
			if r.Chance(60) {
				recs[i] = map[string]interface{}{"s": pick(r.Chance(50), c.val, c.decoy)}
			}
		}
		op := pick(r.Chance(70), "==", "!=").(string)
		text = "$[?(@.s " + op + " '" + c.raw + "')]"
		what = "literal-escape:" + c.raw
		keep = func(v interface{}) bool { s, ok := v.(string); return (ok && s == c.val) == (op == "==") }
		if op == "!=" {
			keep = func(v interface{}) bool { s, ok := v.(string); return !(ok && s == c.val) }
		}
	}
	doc := interface{}(recs)
	rec := Record{Text: text, Doc: JSONText(doc), Tags: []string{"class:regex-direct", "regex-direct:" + what}}
	out := Run(text, doc, &cfg)
	var want []interface{}
	for _, m := range recs {
		v, has := m.(map[string]interface{})["s"]
		if strings.Contains(what, "literal-escape") && strings.Contains(text, "!=") {
			if !has || keep(v) {
				want = append(want, m)
			}
			continue
		}
		if has && keep(v) {
			want = append(want, m)
		}
	}
	switch {
	case len(want) == 0 && out.OK:
		rec.Viol, rec.Class = fmt.Sprintf("%s selects %s, the oracle selects nothing", text, ValsSexp(out.Vals)), "regex-direct"
	case len(want) > 0 && (!out.OK || ValsSexp(out.Vals) != ValsSexp(want)):
		rec.Viol, rec.Class = fmt.Sprintf("%s gives %s, the oracle selects %s", text, c08Show(out), ValsSexp(want)), "regex-direct"
	}
	rec.Key = "regex-direct/" + what + "/" + fmt.Sprint(len(want))
	return rec
}

// ---------- class lit-left: the literal written on the LEFT of a `$`-path / `@`-path ----------
//
// `2 == $.limit`, `1 != @.c`, `0 < $.c.d` … on both decodings (60% json.Number). Half of the cases
// come from b7GenRecCase (records under `$.a`, the literal usually equal to the operand's value),
// half from the general generator with every `PATH op LIT` turned into `LIT op' PATH`.
func c01LitLeftCase(r *Rng) Record {
	var doc interface{}
	var p *Path
	if r.Chance(50) {
		doc, p = b7GenRecCase(r, 85)
	} else {
		o := DefaultOpts()
		o.RootBias = 40
		for try := 0; try < 8; try++ {
			doc, p = GenCase(r, o)
			if nr, nc := b7LitLeft(r, p, 85); nr+nc > 0 {
				break
			}
			if try == 7 {
				doc, p = b7GenRecCase(r, 100)
			}
		}
	}
	nr, nc := b7LitLeft(r, p, 0)
	text := Render(p, r)
	jn := r.Chance(60)
	if jn {
		doc = ToJnum(doc)
	}
	cfg := Config(false, nil)
	tags := []string{"class:lit-left"}
	if nr > 0 {
		tags = append(tags, "lit-left:of-$-path")
	}
	if nc > 0 {
		tags = append(tags, "lit-left:of-@-path")
	}
	return c01Check(text, p, p.Sexp(), doc, jn, &cfg, tags, map[string]interface{}{}, nil)
}

// ---------- class reentrant: a user function evaluates the SAME parsed function again ----------
//
// `reent` (b7Reent) is registered next to the registry; while the parsed function evaluates the
// document, every call of `reent` evaluates the same parsed function on another document of the
// same shape (one or two levels deep) and returns its argument. What the path selects is what it
// selects with `id` in place of `reent` (that is what the specification and the model are asked).
func c01ReentCase(r *Rng) Record {
	var doc interface{}
	var p *Path
	var nc, nr, nt int
	if r.Chance(50) {
		doc, p = b7GenRecCase(r, 30)
		nc, nr, nt = b7InjectReent(r, p, 80)
	} else {
		o := DefaultOpts()
		o.RootBias = 20
		for try := 0; try < 6; try++ {
			doc, p = GenCase(r, o)
			nc, nr, nt = b7InjectReent(r, p, 75)
			if nc+nr > 0 {
				break
			}
		}
	}
	if nc+nr+nt == 0 {
		p.Fns = append(p.Fns, Fn{Name: b7ReentName})
		nt = 1
	}
	text := Render(p, r)
	psexp := b7AsID(p.Sexp())
	jn := r.Chance(40)
	re := &b7Reent{Budget: 400}
	levels := 1 + r.Weighted([]int{70, 30})
	var altTexts []string
	for l := 0; l < levels; l++ {
		var alt interface{}
		switch r.Weighted([]int{75, 10, 15}) {
		case 0:
			alt = b7AltDoc(r, doc, []int{30, 60, 100}[r.Intn(3)])
		case 1:
			alt = doc // the very same document object
		default:
			alt = GenDoc(r, DefaultOpts(), 0)
		}
		if jn {
			alt = ToJnum(alt)
		}
		re.Docs = append(re.Docs, alt)
		altTexts = append(altTexts, JSONText(alt))
	}
	if jn {
		doc = ToJnum(doc)
	}
	cfg := Config(false, nil)
	b7WithReent(&cfg, re)
	tags := []string{"class:reentrant", fmt.Sprintf("reentrant:levels-%d", levels)}
	if nc > 0 {
		tags = append(tags, "reentrant:in-@-operand")
	}
	if nr > 0 {
		tags = append(tags, "reentrant:in-$-operand")
	}
	if nt > 0 {
		tags = append(tags, "reentrant:at-the-end")
	}
	info := map[string]interface{}{"reentrant": "the filter function `reent` evaluates the same parsed function on inner_documents[depth] and returns its argument (the specification is asked with `id`)",
		"inner_documents": altTexts}
	rec := c01Check(text, p, psexp, doc, jn, &cfg, tags, info, func(f Parsed) func() string {
		re.F = f
		return func() string {
			re.F = nil
			if re.Panic != "" {
				return "an inner evaluation of the same parsed function panicked: " + clip(re.Panic, 600)
			}
			return ""
		}
	})
	if re.Inner > 0 {
		rec.Tags = append(rec.Tags, "reentrant:inner-evaluation-ran")
	}
	return rec
}
