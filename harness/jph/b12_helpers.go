package jph

import (
	"fmt"
	"reflect"
	"strings"
	"time"

	"github.com/AsaiYusuke/jsonpath"
)

// Round 12 helpers: case classes that reach configurations / documents / sizes the earlier
// generators never produced.

// c02BothConfig: the registry plus every function name of the text registered in BOTH tables
// (as filter function and as aggregate function). Whichever the library binds, Parse stays total.
func c02BothConfig(names []string, acc bool) *jsonpath.Config {
	c := Config(acc, nil)
	for _, name := range names {
		switch c02Hash(name) % 3 {
		case 0:
			c.SetFilterFunction(name, fnID)
			c.SetAggregateFunction(name, agCount)
		case 1:
			c.SetAggregateFunction(name, agList)
			c.SetFilterFunction(name, fnWrap)
		default:
			c.SetFilterFunction(name, fnFailAll)
			c.SetAggregateFunction(name, agFail)
		}
	}
	return &c
}

// ---------- C05: config-less parse, document edited inside between calls ----------

// c05EditKeepLen edits the content of the root container in place: the root map / slice object stays
// and keeps its length; every child is replaced by a variant of itself (scalars change, members of
// inner containers come and go). Reports whether anything could be edited.
func c05EditKeepLen(r *Rng, target interface{}, rate int) bool {
	switch t := target.(type) {
	case map[string]interface{}:
		for _, k := range sortedKeys(t) {
			t[k] = c05Mutate(r, t[k], rate)
		}
		return len(t) > 0
	case []interface{}:
		for i := range t {
			t[i] = c05Mutate(r, t[i], rate)
		}
		return len(t) > 0
	}
	return false
}

// c05PlainInPlace: see the head of c05.go.
func c05PlainInPlace(r *Rng, text string, doc0 interface{}) (string, []string) {
	g, po := SafeParse(text, nil)
	if g == nil {
		if po.ErrKind == "notfound" {
			return "", nil // the path calls a function
		}
		return "Parse without a Config failed for a path it accepts with one: " + po.Detail(), nil
	}
	target := DeepCopy(doc0)
	rounds := r.Range(1, 3)
	for k := 0; k <= rounds; k++ {
		if k > 0 && !c05EditKeepLen(r, target, []int{25, 60, 100}[r.Intn(3)]) {
			return "", nil
		}
		want := c05Canon(Run(text, DeepCopy(target), nil))
		got := c05Canon(SafeCall(g, target))
		if got != want {
			return fmt.Sprintf("function parsed without a Config, call %d on one document object (edited inside between the calls, root length unchanged; now %s): reused=%s, a fresh Retrieve=%s",
				k, clip(JSONText(target), 400), clip(got, 300), clip(want, 300)), nil
		}
	}
	return "", []string{"plain-inplace"}
}

// ---------- C04: documents with leaves outside the JSON model ----------
//
// Class foreign-leaf (one case in 40). 1..3 members / elements of a generated document are replaced
// by Go values that are not JSON-shaped: map[interface{}]interface{} (what a YAML decoder produces),
// map[string]int, map[string]string, []string, []int, and JSON containers that hold such a value
// one level down. The path leads to one of them through child / index / wildcard steps and
// sometimes steps further (a child, an index, a wildcard, a recursive descent below it). The document
// and an independently built twin (same construction, its own foreign values) must stay deeply equal
// — reflect.DeepEqual, which also compares the dynamic types of these leaves — after Parse, the
// call, reading the results, repeated calls and Retrieve, in plain and accessor mode.

var c04ForeignNames = []string{"map[interface{}]interface{}", "map[interface{}]interface{}/nested", "map[string]int", "[]string",
	"[]interface{}/holds-map[interface{}]", "map[string]interface{}/holds-map[interface{}]", "[]int", "map[string]string"}

func c04ForeignValue(kind int) interface{} {
	switch kind {
	case 0:
		return map[interface{}]interface{}{"a": float64(1), "b": "x"}
	case 1:
		return map[interface{}]interface{}{1: "one", "a": map[interface{}]interface{}{"b": float64(2)}}
	case 2:
		return map[string]int{"a": 1, "b": 2}
	case 3:
		return []string{"a", "b"}
	case 4:
		return []interface{}{map[interface{}]interface{}{"a": float64(1)}, float64(2), map[interface{}]interface{}{"b": "y"}}
	case 5:
		return map[string]interface{}{"a": map[interface{}]interface{}{"a": float64(1)}, "b": float64(3)}
	case 6:
		return []int{1, 2, 3}
	}
	return map[string]string{"a": "x"}
}

func c04Slots(v interface{}, loc []c12Seg, out *[][]c12Seg) {
	switch t := v.(type) {
	case map[string]interface{}:
		for _, k := range sortedKeys(t) {
			l := append(append([]c12Seg{}, loc...), c12Seg{Key: k})
			*out = append(*out, l)
			c04Slots(t[k], l, out)
		}
	case []interface{}:
		for i, x := range t {
			l := append(append([]c12Seg{}, loc...), c12Seg{IsIdx: true, Idx: i})
			*out = append(*out, l)
			c04Slots(x, l, out)
		}
	}
}

func c04ForeignCase(r *Rng) Record {
	o := c04Opts(r)
	base := GenDoc(r, o, 0)
	if !c04IsContainer(base) || len(sortedKeysOrIdx(base)) == 0 {
		base = map[string]interface{}{"a": base, "b": []interface{}{float64(1), "x"}}
	}
	var slots [][]c12Seg
	c04Slots(base, nil, &slots)
	type put struct {
		loc  []c12Seg
		kind int
	}
	var puts []put
	for n := r.Range(1, 3); n > 0; n-- {
		puts = append(puts, put{slots[r.Intn(len(slots))], r.Intn(len(c04ForeignNames))})
	}
	build := func() interface{} {
		d := DeepCopy(base)
		for _, p := range puts {
			c12Put(d, p.loc, c04ForeignValue(p.kind))
		}
		return d
	}
	doc, snap := build(), build()
	// the path: to the last replaced slot (it is certainly there), then maybe one step further
	target := puts[len(puts)-1]
	p := &Path{Head: HeadRoot}
	for _, sg := range target.loc {
		switch {
		case r.Chance(30):
			p.Steps = append(p.Steps, &Step{Kind: StWild, Bracket: r.Chance(50)})
		case sg.IsIdx:
			p.Steps = append(p.Steps, c04Index(int64(sg.Idx)))
		default:
			p.Steps = append(p.Steps, c04Child(r, sg.Key))
		}
	}
	tail := r.Weighted([]int{35, 20, 15, 15, 15})
	switch tail {
	case 1:
		p.Steps = append(p.Steps, c04Child(r, r.Pick([]string{"a", "b"})))
	case 2:
		p.Steps = append(p.Steps, c04Index(int64(r.Range(0, 1))))
	case 3:
		p.Steps = append(p.Steps, &Step{Kind: StWild, Bracket: r.Chance(50)})
	case 4:
		p.Steps = append(p.Steps, &Step{Kind: StDesc, Inner: c04Child(r, "a")})
	}
	tailName := []string{"none", "child", "index", "wildcard", "descent"}[tail]
	text := Render(p, r)
	acc := r.Chance(35)
	rec := Record{Text: text, Doc: fmt.Sprintf("%#v", doc), Tags: append(stepTags(p), "class:foreign-leaf", "foreign-tail:"+tailName)}
	kinds := ""
	for _, pt := range puts {
		rec.Tags = append(rec.Tags, "foreign:"+c04ForeignNames[pt.kind])
		kinds += fmt.Sprint(pt.kind)
	}
	rec.Info = map[string]interface{}{"accessor": acc, "base_document": JSONText(base), "foreign_at": c12LocSexp(target.loc)}
	snapText := ValSexp(snap)
	changed := func() string {
		if !reflect.DeepEqual(doc, snap) {
			return fmt.Sprintf("document changed (dynamic types included): before=%s after=%s", clip(fmt.Sprintf("%#v", snap), 500), clip(fmt.Sprintf("%#v", doc), 500))
		}
		if t := ValSexp(doc); t != snapText {
			return "document changed: before=" + clip(snapText, 400) + " after=" + clip(t, 400)
		}
		return ""
	}
	cfg := ConfigScramble(acc)
	f, out := SafeParse(text, &cfg)
	if f == nil {
		rec.Viol, rec.Class = "generated path was rejected by Parse: "+out.Detail(), "parse-reject"
		return rec
	}
	steps := []string{"the first call", "a repeated call", "Retrieve", "Retrieve without a Config"}
	for k, how := range steps {
		var o2 Outcome
		switch k {
		case 0, 1:
			o2 = SafeCall(f, doc)
		case 2:
			o2 = Run(text, doc, &cfg)
		default:
			o2 = Run(text, doc, nil)
		}
		if o2.ErrKind == "panic" {
			rec.Viol, rec.Class = how+" panicked: "+o2.Panic, "abnormal"
			return rec
		}
		if d := changed(); d != "" {
			rec.Viol, rec.Class = "after "+how+" ("+clip(o2.Detail(), 200)+"): "+d, "doc-modified"
			return rec
		}
		c04Touch(o2)
		if d := changed(); d != "" {
			rec.Viol, rec.Class = "after reading the results of "+how+": "+d, "doc-modified"
			return rec
		}
		if k == 0 {
			rec.Tags = append(rec.Tags, "outcome:"+pick(o2.OK, "ok", "err-"+o2.ErrKind).(string))
		}
	}
	if acc {
		rec.Tags = append(rec.Tags, "mode:accessor")
	}
	rec.Key = "foreign/" + kinds + "/" + tailName + fmt.Sprint(acc)
	return rec
}

func sortedKeysOrIdx(v interface{}) []int {
	switch t := v.(type) {
	case map[string]interface{}:
		return make([]int, len(t))
	case []interface{}:
		return make([]int, len(t))
	}
	return nil
}

// ---------- C19: a name registered with a nil function, registered properly later ----------
//
// Class nil-registered (12% of the cases, besides the history): a Config (empty, or function set A, plain or
// accessor mode) gets `SetFilterFunction(name, nil)` / `SetAggregateFunction(name, nil)`; a path that uses the
// name is parsed with it. Whatever Parse answers must be a function or a documented error. The returned function
// is called on the probe documents (under recover: what calling a nil function does is not the subject), THEN
// the name is registered on the same Config object with a real function (same kind, the other kind, or both),
// and the earlier function is called again: it must behave exactly as before (same results / same error text /
// same first line of the panic), and the function registered later must never be called by it.
var c19NilPathsF = []string{"$.a.NAME()", "$.a.a.NAME()", "$.b[?(@.a.NAME())]", "$.b[?(@.a.NAME() == 1)].a", "$..a.NAME()", "$.c.NAME().id()", "$[0].a.NAME()"}
var c19NilPathsA = []string{"$.d.NAME()", "$.*.NAME()", "$.b[*].a.NAME()", "$.b[?($.d.NAME() == 3)]", "$..a.NAME()", "$.d.NAME().id()", "$[*].NAME()"}

func c19NilRegistered(r *Rng) (viol string, tags []string, info map[string]interface{}) {
	log := &c19Log{}
	base := []int{c19Empty, c19A, c19AccA, c19AccOnly}[r.Intn(4)]
	cfg := c19Config(base, log)
	name := r.Pick([]string{"late", "nilf", "id", "max"})
	agg := r.Chance(45)
	var path string
	if agg {
		cfg.SetAggregateFunction(name, nil)
		path = strings.ReplaceAll(r.Pick(c19NilPathsA), "NAME", name)
	} else {
		cfg.SetFilterFunction(name, nil)
		path = strings.ReplaceAll(r.Pick(c19NilPathsF), "NAME", name)
	}
	how := pick(agg, "SetAggregateFunction", "SetFilterFunction").(string)
	info = map[string]interface{}{"nil_registered": fmt.Sprintf("%s + cfg.%s(%q, nil); Parse(%q, cfg)", c19CfgNames[base], how, name, path)}
	tags = []string{"class:nil-registered", "nil-registered:" + pick(agg, "aggregate", "filter").(string)}
	f, po := SafeParse(path, cfg)
	if f == nil {
		if po.ErrKind == "panic" || po.NilNil || po.Both || !c02IsParseErr(po.ErrKind) {
			return fmt.Sprintf("%v: abnormal outcome of Parse: %s", info["nil_registered"], clip(po.Detail(), 400)), tags, info
		}
		return "", append(tags, "nil-registered:parse-"+po.ErrKind), info
	}
	var docs []interface{}
	for _, t := range c19Probes {
		d, _ := c02Decode(t)
		docs = append(docs, d)
	}
	behave := func() string {
		var b strings.Builder
		for k, d := range docs {
			log.take()
			out := SafeCall(f, DeepCopy(d))
			text := c19Render(out)
			if out.ErrKind == "panic" {
				text = "panic " + firstLines(out.Panic, 1)
			}
			fmt.Fprintf(&b, "D%d: %s L: %s\n", k, text, log.take())
		}
		return b.String()
	}
	before := behave()
	later := r.Intn(3) // the same kind / the other kind / both
	lf := func(v interface{}) (interface{}, error) { log.add("LATER." + name); return "LATER", nil }
	la := func(vs []interface{}) (interface{}, error) { log.add("LATER." + name); return "LATER", nil }
	if later == 2 || (later == 0) != agg {
		cfg.SetFilterFunction(name, lf)
	}
	if later == 2 || (later == 0) == agg {
		cfg.SetAggregateFunction(name, la)
	}
	after := behave()
	tags = append(tags, "nil-registered:later-"+[]string{"same-kind", "other-kind", "both-kinds"}[later])
	if strings.Contains(before, "panic") {
		tags = append(tags, "nil-registered:call-panics")
	}
	if after != before {
		return fmt.Sprintf("%v returned a function; after the name %q was registered on the same Config object LATER (%s) the earlier function behaves differently:\n before: %s\n after:  %s",
			info["nil_registered"], name, []string{"same kind", "other kind", "both kinds"}[later], clip(before, 500), clip(after, 500)), tags, info
	}
	return "", tags, info
}

// ---------- class huge: path texts beyond 65 535 characters / beyond 10 000 characters ----------
//
// b12HugeName: a member name of 65 600..70 000 characters (letters only).
func b12HugeName(r *Rng) string {
	n := r.Range(65600, 70000)
	unit := r.Pick([]string{"a", "k", "ab", "name_", "Zz9"})
	return strings.Repeat(unit, n/len(unit)+1)[:n]
}

var b12HugeRests = []string{"[?(@.a)]", "[?(@.a==1)]", "[?(@.a==1 && @.b)]", "..[*]", "..a", "[*]", ".*", ".a", "['a','b']", "[0:2]", "[0,1]", "[?(@.a > 1 || !@.b)].a",
	"[?(@.b =~ /x/)]", ".a.count()", "[*].a.max()", "[?(@.a[?(@.b)])]", "[?(@.a.id() == 1)]", "..[?(@.a)]", "[?($.a)]", "[?(@ == 'x')]", "..['a','b']", "[1:]"}

// b12HugeRest: what follows the huge name: 1..3 fixed fragments (every rule family of the grammar), or the steps of a generated valid path.
func b12HugeRest(r *Rng) (string, string) {
	if r.Chance(35) {
		s, _, _ := c02GenValid(r)
		if at := strings.IndexByte(s, '$'); at >= 0 && len(s) < 300 {
			return s[at+1:], "generated"
		}
	}
	rest := ""
	for n := r.Range(1, 3); n > 0; n-- {
		rest += r.Pick(b12HugeRests)
		if strings.HasSuffix(rest, "()") {
			break
		}
	}
	return rest, "fragments"
}

// b12HugeSpell: the short and the long text; the name in single quotes, double quotes, or in dot notation.
func b12HugeSpell(r *Rng, name, rest string) (string, string, string) {
	switch r.Intn(3) {
	case 0:
		return "$['a']" + rest, "$['" + name + "']" + rest, "single-quoted"
	case 1:
		return "$[\"a\"]" + rest, "$[\"" + name + "\"]" + rest, "double-quoted"
	}
	return "$.a" + rest, "$." + name + rest, "dot"
}

// b12SameParseOutcome: the outcome of Parse for `$['<huge>']REST` must be the outcome for `$['a']REST`, positions shifted by the
// difference in length (the length of a name is irrelevant to everything that follows it).
func b12SameParseOutcome(short, long Outcome, shift int) string {
	if long.ErrKind == "panic" || long.NilNil || long.Both {
		return "abnormal outcome for the long text: " + clip(long.Detail(), 300)
	}
	if short.OK != long.OK || short.ErrKind != long.ErrKind {
		return fmt.Sprintf("the short text gives %s, the long text %s", clip(short.Detail(), 200), clip(long.Detail(), 200))
	}
	if short.ErrKind == "syntax" {
		ms, ml := c17reSyntax.FindStringSubmatch(short.Msg), c17reSyntax.FindStringSubmatch(long.Msg)
		if ms != nil && ml != nil {
			var ps, pl int
			fmt.Sscan(ms[1], &ps)
			fmt.Sscan(ml[1], &pl)
			if ps >= 3 && (pl != ps+shift || ms[2] != ml[2] || ms[3] != ml[3]) {
				return fmt.Sprintf("syntax error of the short text: position=%d reason=%s near=%q; of the long text (%d characters more): position=%d reason=%s near=%q", ps, ms[2], clip(ms[3], 80), shift, pl, ml[2], clip(ml[3], 80))
			}
		}
	}
	return ""
}

// c17HugeCase (C17, one case in 1500): see c17.go.
func c17HugeCase(r *Rng) Record {
	name := b12HugeName(r)
	rest, how := b12HugeRest(r)
	short, long, spell := b12HugeSpell(r, name, rest)
	acc := r.Chance(30)
	cfg := ConfigNoDecoys(acc)
	rec := Record{Text: short, Tags: []string{"gen:huge", "class:huge", "huge:rest-" + how, "huge:name-" + spell},
		Info: map[string]interface{}{"long_text": "the text shown with the name `a` right after `$` replaced by " + fmt.Sprint(len(name)) + " characters: " + clip(name, 10) + "…", "name_length": len(name), "rest": rest}}
	_, so := SafeParse(short, &cfg)
	_, lo := SafeParse(long, &cfg)
	if msg := b12SameParseOutcome(so, lo, len(name)-1); msg != "" {
		rec.Viol = "a member name of " + fmt.Sprint(len(name)) + " characters right after `$` changes how the rest of the path (" + clip(rest, 200) + ") is parsed: " + msg
		rec.Class = "huge-text"
		return rec
	}
	rec.Tags = append(rec.Tags, "outcome:"+pick(so.OK, "accepted", so.ErrKind).(string))
	if so.OK {
		rec.Key = "huge/" + c02Skeleton(rest, 24)
	}
	return rec
}

// c02HugeCase (C02, one random case in 1500): (a) as c17HugeCase, and the parsed function is called; (b) `$` + 10 000..14 000 × `.a` +
// 20..26 nested existence filters: Parse must return within c02SlowLimit (run in a goroutine; a Parse that does not return
// holds the library's lock, so the worker is given up).
func c02HugeCase(r *Rng) Record {
	name := b12HugeName(r)
	rest, how := b12HugeRest(r)
	short, long, spell := b12HugeSpell(r, name, rest)
	cfg := Config(false, nil)
	rec := Record{Text: short, Tags: []string{"gen:huge", "class:huge", "huge:rest-" + how, "huge:name-" + spell},
		Info: map[string]interface{}{"long_text": "the text shown with the name `a` right after `$` replaced by " + fmt.Sprint(len(name)) + " characters: " + clip(name, 10) + "…", "name_length": len(name), "rest": rest}}
	_, so := SafeParse(short, &cfg)
	f, lo := SafeParse(long, &cfg)
	if msg := b12SameParseOutcome(so, lo, len(name)-1); msg != "" {
		rec.Viol, rec.Class = "a member name of "+fmt.Sprint(len(name))+" characters right after `$` changes the outcome of Parse for the rest ("+clip(rest, 200)+"): "+msg, "huge-text"
		return rec
	}
	if !lo.OK && !c02IsParseErr(lo.ErrKind) {
		rec.Viol, rec.Class = "undocumented Parse outcome for the long text: "+clip(lo.Detail(), 300), "error-type"
		return rec
	}
	if f != nil {
		for _, text := range c02ProbeDocs {
			doc, _ := c02Decode(text)
			if msg := c02CheckCall(SafeCall(f, doc), false); msg != "" {
				rec.Viol, rec.Class = "calling the function parsed from the long text on "+text+": "+msg, "call"
				return rec
			}
		}
	}
	// (b) many steps, then nested existence filters
	steps, depth := r.Range(10000, 14000), r.Range(20, 26)
	inner := r.Pick([]string{"@.a", "@.b", "@"})
	deep := "$" + strings.Repeat(".a", steps) + strings.Repeat("[?("+inner, depth) + strings.Repeat(")]", depth)
	rec.Info["deep_text"] = fmt.Sprintf("$ + %d × `.a` + %d × `[?(%s` + %d × `)]`", steps, depth, inner, depth)
	done := make(chan Outcome, 1)
	t0 := time.Now()
	go func() { _, o := SafeParse(deep, &cfg); done <- o }()
	select {
	case o := <-done:
		if !o.OK {
			rec.Viol, rec.Class = fmt.Sprintf("%v was not accepted: %s", rec.Info["deep_text"], clip(o.Detail(), 300)), "huge-text"
			return rec
		}
		rec.Info["deep_parse_ms"] = time.Since(t0).Milliseconds()
	case <-time.After(c02SlowLimit + c02NestedGrace):
		rec.Viol = fmt.Sprintf("Parse did not return within %v for %v", c02SlowLimit+c02NestedGrace, rec.Info["deep_text"])
		rec.Class, rec.Poison = "slow", true
		rec.Key = "huge/hang"
		return rec
	}
	rec.Tags = append(rec.Tags, "huge:deep-nesting-after-10000-steps", "outcome:"+pick(so.OK, "accepted", so.ErrKind).(string))
	rec.Key = "huge/" + c02Skeleton(rest, 24)
	return rec
}

// c01HugeCase (C01, one case in 1500): the document {K: D} with a key K of 65 600..70 000 characters and the path `$['K']REST`
// must select exactly what the specification selects with `$['kQ7']REST` on {kQ7: D} (REST = the steps of a generated path over D);
// the Lean drivers are asked about the short version only. Also compared in Go with the short version run on the real library.
func c01HugeCase(r *Rng) Record {
	o := DefaultOpts()
	o.RootBias = 0
	var d interface{}
	var p *Path
	for try := 0; ; try++ {
		d, p = GenCase(r, o)
		sel := false
		for _, s := range p.Steps {
			sel = sel || s.Kind == StFilter || s.Kind == StDesc || s.Kind == StWild
		}
		if try >= 12 {
			break
		}
		if sel && len(p.Steps) >= 2 {
			c := Config(false, nil)
			if Run(Render(p, nil), DeepCopy(d), &c).OK {
				break
			}
		}
	}
	const tok = "kQ7"
	name := tok + b12HugeName(r)
	first := &Step{Kind: StChild, Key: tok, Bracket: r.Chance(50)}
	ps := &Path{Head: HeadRoot, Steps: append([]*Step{first}, p.Steps...), Fns: p.Fns}
	short := Render(ps, r)
	psexp := ps.Sexp()
	rec := Record{Text: short, Doc: JSONText(map[string]interface{}{tok: d}), Tags: append(stepTags(ps), "class:huge")}
	if strings.Count(short, tok) != 1 {
		return rec // the token occurs elsewhere in the text: trivial case
	}
	long := strings.Replace(short, tok, name, 1)
	rec.Info = map[string]interface{}{"long_text": strings.Replace(short, tok, fmt.Sprintf("<%d characters: kQ7 + …>", len(name)), 1), "name_length": len(name),
		"long_document": "the document shown with the key kQ7 replaced by that name"}
	cfg := Config(false, nil)
	so := Run(short, map[string]interface{}{tok: DeepCopy(d)}, &cfg)
	lo := Run(long, map[string]interface{}{name: DeepCopy(d)}, &cfg)
	if !lo.OK && (c02IsParseErr(lo.ErrKind) || !c02IsRunErr(lo.ErrKind)) {
		rec.Viol, rec.Class = "the long path was not evaluated normally: "+clip(lo.Detail(), 300), "parse-reject"
		return rec
	}
	canon := func(o Outcome) string {
		if o.OK {
			return "ok " + ValsSexp(o.Vals)
		}
		return "err " + o.ErrKind
	}
	if canon(so) != canon(lo) {
		rec.Viol = fmt.Sprintf("with the %d-character key the path selects %s, with the 3-character key %s", len(name), clip(canon(lo), 400), clip(canon(so), 400))
		rec.Class = "huge-text"
		return rec
	}
	exp := "(q err)"
	if lo.OK {
		exp = "(q ok"
		for _, v := range lo.Vals {
			exp += " " + ValSexp(v)
		}
		exp += ")"
		rec.Tags = append(rec.Tags, "outcome:ok")
		rec.Key = "huge/" + shapeKey(ps)
	}
	sd := ValSexp(map[string]interface{}{tok: d})
	rec.Q = []LeanQ{{Driver: "spec", Line: "(q run " + psexp + " " + sd + ")", Expect: exp, What: "result for the huge key vs Spec.run on the short version"},
		{Driver: "impl", Line: "(q errk f " + psexp + " " + sd + ")", Expect: lo.ImplExpect(false), What: "result for the huge key vs Impl.run on the short version"}}
	return rec
}

// ---------- C12: values that are themselves jsonpath.Accessor ----------
//
// Class accessor-valued (one case in 50). A jsonpath.Accessor is an ordinary Go value: it may sit in the document
// (as a member / element, or be the document) and a user function may return one. Each such value here has a Get
// that answers its own sentinel string ("inner-N"), so it can be recognised without comparing function pointers.
// Plain mode must return the value itself (a jsonpath.Accessor whose Get answers the sentinel); accessor mode
// must return the same number of results, each a wrapping jsonpath.Accessor whose Get() yields what plain mode
// returned: again a jsonpath.Accessor VALUE whose Get answers the sentinel — not the sentinel.
func c12AccValuedCase(r *Rng) Record {
	n := 0
	mk := func() jsonpath.Accessor {
		n++
		s := fmt.Sprintf("inner-%d", n)
		a := jsonpath.Accessor{Get: func() interface{} { return s }}
		if r.Chance(60) {
			a.Set = func(interface{}) {}
		}
		return a
	}
	// what a result is: "A:inner-3" for an accessor-valued value, the canonical text otherwise
	show := func(v interface{}) string {
		if a, ok := v.(jsonpath.Accessor); ok {
			if a.Get == nil {
				return "A:<nil Get>"
			}
			if s, ok := a.Get().(string); ok && strings.HasPrefix(s, "inner-") {
				return "A:" + s
			}
			return "A:<wraps " + clip(ValSexp(a.Get()), 80) + ">"
		}
		return ValSexp(v)
	}
	variant := r.Weighted([]int{45, 35, 10, 10})
	vname := []string{"leaf-in-document", "filter-function-output", "aggregate-function-output", "root-document"}[variant]
	var text string
	build := func() interface{} { return nil }
	switch variant {
	case 0:
		text = r.Pick([]string{"$.a", "$['a','c']", "$.*", "$[*]", "$..a", "$.b[0]", "$.b[*]", "$.b[0,1]", "$.b[0:2]", "$..[0]", "$.d.a", "$.d.*", "$.b[?(@)]", "$..*"})
		build = func() interface{} {
			n = 0
			return map[string]interface{}{"a": mk(), "b": []interface{}{mk(), float64(2), mk()}, "c": "x", "d": map[string]interface{}{"a": mk(), "b": float64(1)}}
		}
	case 1:
		text = r.Pick([]string{"$.a.mkacc()", "$.*.mkacc()", "$.b[*].mkacc()", "$..a.mkacc()", "$.b[0:2].mkacc()", "$.c.mkacc()"})
		build = func() interface{} {
			n = 0
			return map[string]interface{}{"a": float64(1), "b": []interface{}{float64(1), float64(2), "y"}, "c": "x", "d": map[string]interface{}{"a": float64(3)}}
		}
	case 2:
		text = r.Pick([]string{"$.*.mkaccAll()", "$.b[*].mkaccAll()", "$..a.mkaccAll()"})
		build = func() interface{} {
			n = 0
			return map[string]interface{}{"a": float64(1), "b": []interface{}{float64(1), float64(2)}, "d": map[string]interface{}{"a": float64(3)}}
		}
	default:
		text = "$"
		build = func() interface{} { n = 0; return mk() }
	}
	rec := Record{Text: text, Tags: []string{"class:accessor-valued", "accessor-valued:" + vname}, Info: map[string]interface{}{"variant": vname}}
	run := func(acc bool) Outcome {
		cfg := Config(acc, nil)
		doc := build() // the sentinels restart at inner-1 for each mode
		cfg.SetFilterFunction("mkacc", func(interface{}) (interface{}, error) { return mk(), nil })
		cfg.SetAggregateFunction("mkaccAll", func([]interface{}) (interface{}, error) { return mk(), nil })
		return Run(text, doc, &cfg)
	}
	po, ao := run(false), run(true)
	rec.Doc = fmt.Sprintf("%#v", build())
	if po.ErrKind == "panic" || ao.ErrKind == "panic" {
		rec.Viol, rec.Class = "panic: "+clip(po.Panic+ao.Panic, 600), "abnormal"
		return rec
	}
	if po.OK != ao.OK || po.ErrKind != ao.ErrKind || po.Msg != ao.Msg || len(po.Vals) != len(ao.Vals) {
		rec.Viol, rec.Class = fmt.Sprintf("plain mode: %s; accessor mode: %s", clip(po.Detail(), 300), clip(ao.Detail(), 300)), "mode-differs"
		return rec
	}
	inner := 0
	for k := range po.Vals {
		pv := show(po.Vals[k])
		w, ok := ao.Vals[k].(jsonpath.Accessor)
		if !ok || w.Get == nil {
			rec.Viol, rec.Class = fmt.Sprintf("accessor-mode result %d is no usable jsonpath.Accessor (%T)", k, ao.Vals[k]), "not-wrapped"
			return rec
		}
		if av := show(w.Get()); av != pv {
			rec.Viol = fmt.Sprintf("result %d: plain mode returns %s, Get() of the accessor-mode result yields %s (A:inner-N = a jsonpath.Accessor value whose own Get answers \"inner-N\"; a bare (s …) string means the value was handed out unwrapped)", k, pv, av)
			rec.Class = "get-differs"
			return rec
		}
		if strings.HasPrefix(pv, "A:inner-") {
			inner++
		}
	}
	if po.OK && inner > 0 {
		rec.Key = "accessor-valued/" + vname + "/" + c02Skeleton(text, 16)
		rec.Tags = append(rec.Tags, "outcome:ok")
	}
	return rec
}
