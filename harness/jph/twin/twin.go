// Package twin holds named Go types whose BARE names equal those of types of other packages
// (encoding/json.Number, time.Duration, time.Month, time.Time, reflect.Kind, reflect.Value).
// They are put into documents as leaves: a message that names "the type found" must name the
// type of the value at hand (twin.Number), whatever other type of that bare name the process
// has met before (b13_helpers.go, C15 class same-name-types).
package twin

type Number string

type Duration int64

type Month int

type Kind uint

type Time struct{ Sec int64 }

type Value struct{ V interface{} }
