package jph

import (
	"fmt"
	"regexp"
	"sort"
	"strings"
)

// C18 — equivalent spellings of a path behave identically.
//
// One abstract path (GenCase, odd keys included) is rendered in 2..6 spellings: the
// renderer's insignificant variations (spaces inside brackets, around commas, colons,
// comparison and logical operators and after `!`, leading/trailing spaces, quote kind,
// `+`/leading zeros on integers, `1.0`/`1e0`/`+1`, True/TRUE/Null …, a trailing `:` in a
// slice) plus the structural ones chosen here per step, also inside filter operands:
// `.name` / `['name']` / `["name"]`, `.*` / `[*]` (after `..` too), and the leading `$`
// omitted before a name or bracket. 35% of the cases draw keys from gen.go's BlankKeys, so that the
// dot spelling needs a backslash at the first / last character (`.k\ `, also at the very end of the
// path and after `..`). One case in five draws 30% of its keys with a Unicode space-like / format character
// (U+3000, U+00A0, U+0085, U+1680, U+2000..U+200B, U+2028, U+2029, U+202F, U+205F, U+FEFF, U+180E) at the start,
// at the end or inside (GenOpts.SpaceKeys): ordinary name characters in dot notation, also as the very first
// character of a path whose `$` is omitted. Every spelling is parsed and run on the same document:
//   - all must return the same values, or errors of the same type (and expected/found types)
//     that name the same step (the error's text is mapped back to the step index of that
//     spelling),
//   - the dumps of the parsed trees must be equal once the recorded texts are blanked,
//   - the abstract path is put to jpv-spec once.
//
// One case in 25 (c18JointCase, b10_helpers.go): a quoted name with a RAW control character and neither a
// backslash nor a quote, written with single and with double quotes in up to nine positions: the two spellings
// must give the same values or errors of the same type, whatever the library makes of such a name.

type c18 struct{}

func init() { Props["C18"] = c18{} }

func (c18) Count(tier string) int {
	if tier == "thorough" {
		return 1000000
	}
	return 50000
}

var c18Info = regexp.MustCompile(`\(\(s[ 0-9]*\) \(s[ 0-9]*\) ([tf]) ([tf])\)`)

func c18Blank(tree string) string { return c18Info.ReplaceAllString(tree, "(_ _ $1 $2)") }

// c18Respell chooses the structural spelling of every name / wildcard step, recursively.
func c18Respell(p *Path, r *Rng, feats map[string]bool) {
	for _, s := range p.Steps {
		c18RespellStep(s, r, feats)
	}
}

func c18RespellStep(s *Step, r *Rng, feats map[string]bool) {
	switch s.Kind {
	case StChild:
		s.Bracket = r.Chance(45)
		s.DQuote = r.Chance(45)
		if s.Bracket || !DotSpellable(s.Key) {
			if s.DQuote {
				feats[`spell:["name"]`] = true
			} else {
				feats["spell:['name']"] = true
			}
		} else {
			feats["spell:.name"] = true
			if EscDot(s.Key) != s.Key {
				feats[`spell:.na\ me (backslash escapes)`] = true
			}
			if strings.HasSuffix(s.Key, " ") {
				feats[`spell:.name\  (ends in an escaped blank)`] = true
			}
			if strings.HasPrefix(s.Key, " ") {
				feats[`spell:.\ name (starts with an escaped blank)`] = true
			}
		}
	case StWild:
		s.Bracket = r.Chance(50)
		if s.Bracket {
			feats["spell:[*]"] = true
		} else {
			feats["spell:.*"] = true
		}
	case StDesc:
		c18RespellStep(s.Inner, r, feats)
	case StFilter:
		c18RespellQuery(s.Q, r, feats)
	}
}

func c18RespellQuery(q *Query, r *Rng, feats map[string]bool) {
	switch q.Kind {
	case QAnd, QOr:
		c18RespellQuery(q.A, r, feats)
		c18RespellQuery(q.B, r, feats)
	case QExist, QRegex:
		c18Respell(q.P, r, feats)
	case QCmp:
		if !q.L.IsLit {
			c18Respell(q.L.Path, r, feats)
		}
		if !q.R.IsLit {
			c18Respell(q.R.Path, r, feats)
		}
	}
}

var c18IntPool = []int64{8, 9, 10, 11, 17, 18, 19, 64, 77, 80, 89, 99, 100, 108, -8, -9, -10, -18}

// c18BigInts replaces some index / slice numbers of the path (top level only) by values from c18IntPool.
func c18BigInts(p *Path, r *Rng) bool {
	done := false
	for _, s := range p.Steps {
		st := s
		if st.Kind == StDesc {
			st = st.Inner
		}
		if st.Kind != StUnion {
			continue
		}
		for i := range st.Subs {
			sub := &st.Subs[i]
			pickInt := func() *int64 { v := c18IntPool[r.Intn(len(c18IntPool))]; return &v }
			switch sub.Kind {
			case SubIdx:
				if r.Chance(60) {
					sub.N = *pickInt()
					done = true
				}
			case SubSlice:
				if sub.S != nil && r.Chance(40) {
					sub.S = pickInt()
					done = true
				}
				if sub.E != nil && r.Chance(40) {
					sub.E = pickInt()
					done = true
				}
				if sub.T != nil && r.Chance(30) {
					sub.T = pickInt()
					done = true
				}
			}
		}
	}
	return done
}

type c18Spelling struct {
	p     *Path
	text  string
	out   Outcome
	tree  string
	steps []string // candidates: the step positions whose recorded text equals the error's
}

// c18Locate maps the text an error names back to step positions of this spelling.
func c18Locate(p *Path, errText string) []string {
	var out []string
	for i, s := range p.Steps {
		if s.Kind == StDesc {
			if errText == ".." {
				out = append(out, fmt.Sprintf("%d..", i))
			}
			if s.Inner.Text == errText {
				out = append(out, fmt.Sprintf("%d", i))
			}
			continue
		}
		if s.Text == errText {
			out = append(out, fmt.Sprintf("%d", i))
		}
	}
	for j, f := range p.Fns {
		if f.Text == errText {
			out = append(out, fmt.Sprintf("fn%d", j))
		}
	}
	return out
}

func c18Intersect(a, b []string) bool {
	for _, x := range a {
		for _, y := range b {
			if x == y {
				return true
			}
		}
	}
	return false
}

// c18SpaceTags: which names of the path hold a space-like character, and where.
func c18SpaceTags(p *Path, feats map[string]bool) {
	for _, s := range p.Steps {
		st := s
		if st.Kind == StDesc {
			st = st.Inner
		}
		switch st.Kind {
		case StChild:
			for _, t := range spaceKeyTags(st.Key) {
				feats[t] = true
			}
		case StMulti:
			for _, n := range st.Names {
				for _, t := range spaceKeyTags(n.Key) {
					feats[t] = true
				}
			}
		}
	}
}

var c18LeadZero = regexp.MustCompile(`[\[,:(=<> ][-+]?0[0-9]`)
var c18Plus = regexp.MustCompile(`[\[,:(=<> ]\+[0-9]`)

func (c18) Exec(seed int64, i int, tier string) Record {
	r := CaseRng(seed, "C18", i)
	if i%25 == 13 {
		return c18JointCase(r)
	}
	if i%20 == 6 {
		// class literal-blanks-history (b16_probes.go): Parses without a Config of filters whose regex / string literals
		// differ only in blanks INSIDE the literal, spelled with different blanks outside
		return b16LiteralBlanks(r)
	}
	o := DefaultOpts()
	o.OddKeys = r.Chance(50)
	o.ErrBias = 10
	// names whose dot spelling needs a backslash at the first / last character (`.k\ `, `.\ `): 35% of the cases
	o.BlankKeys = r.Chance(35)
	// names with a Unicode space-like / format character (U+FEFF, U+3000, U+00A0 …) at their start, end or inside: one case in five
	o.SpaceKeys = i%5 == 2
	cfg := Config(false, nil)
	var doc interface{}
	var p *Path
	// two cases in three should select something
	tries := 5
	if r.Chance(33) {
		tries = 1
	}
	for t := 0; t < tries; t++ {
		doc, p = GenCase(r, o)
		if Run(Render(p, nil), doc, &cfg).OK {
			break
		}
	}
	feats := map[string]bool{}
	if r.Chance(15) {
		// integers whose spelling with a leading zero would read differently in another base (8, 9, 010 …): whatever the
		// document holds, every spelling must behave alike
		if c18BigInts(p, r) {
			feats["ints:two-digit / 8 / 9 values"] = true
		}
	}
	n := r.Range(2, 6)
	sps := make([]*c18Spelling, n)
	for k := 0; k < n; k++ {
		q := c09ClonePath(p)
		c18Respell(q, r, feats)
		text := Render(q, r)
		if len(q.Steps) > 0 && q.Steps[0].Kind != StDesc && r.Chance(30) {
			// omit the leading `$`
			at := strings.IndexByte(text, '$')
			first := q.Steps[0]
			switch {
			case first.Kind == StChild && !(first.Bracket || !DotSpellable(first.Key)):
				text = text[:at] + text[at+2:]
				first.Text = first.Key
				feats["spell:name… ($ omitted)"] = true
				if at == 0 && len(spaceKeyTags(first.Key)) > 0 && spaceKeyTags(first.Key)[0] == "name:space-like-first" {
					feats["spell:name… ($ omitted), the path begins with a space-like character of the name"] = true
				}
			case first.Kind == StWild && !first.Bracket:
				text = text[:at] + text[at+2:]
				first.Text = "*"
				feats["spell:*… ($ omitted)"] = true
			default:
				text = text[:at] + text[at+1:]
				feats["spell:[…]… ($ omitted)"] = true
			}
		}
		if ns := len(q.Steps); ns > 0 && len(q.Fns) == 0 {
			last := q.Steps[ns-1]
			if last.Kind == StDesc {
				last = last.Inner
			}
			if last.Kind == StChild && !(last.Bracket || !DotSpellable(last.Key)) && strings.HasSuffix(last.Key, " ") {
				feats[`spell:.name\  as the last thing of the path`] = true
			}
		}
		sp := &c18Spelling{p: q, text: text}
		if r.Chance(25) {
			// whatever was parsed before — also a path that fails half-way inside a nested filter — must
			// not make one spelling behave differently from another
			fp := c19FailPaths[r.Intn(len(c19FailPaths))]
			SafeParse(fp.path, &cfg)
			feats["history:failed-parse-before"] = true
		}
		var f Parsed
		f, sp.out, sp.tree = ParseTree(text, &cfg)
		if f != nil {
			sp.out = SafeCall(f, doc)
		}
		if !sp.out.OK {
			sp.steps = c18Locate(q, sp.out.ErrText)
		}
		sps[k] = sp
		if strings.Contains(strings.TrimSpace(text), " ") {
			feats["spell:spaces"] = true
		}
		if strings.HasPrefix(text, " ") || strings.HasSuffix(text, " ") {
			feats["spell:leading/trailing space"] = true
		}
		if c18LeadZero.MatchString(text) {
			feats["spell:leading zero"] = true
		}
		if c18Plus.MatchString(text) {
			feats["spell:+sign"] = true
		}
	}
	texts := make([]string, n)
	distinct := map[string]bool{}
	for k, sp := range sps {
		texts[k] = sp.text
		distinct[sp.text] = true
	}
	b := sps[0]
	rec := Record{Text: b.text, Doc: JSONText(doc), Info: map[string]interface{}{"spellings": texts}}
	rec.Tags = stepTags(p)
	if o.SpaceKeys {
		c18SpaceTags(p, feats)
	}
	for f := range feats {
		rec.Tags = append(rec.Tags, f)
	}
	rec.Tags = append(rec.Tags, fmt.Sprintf("distinct-spellings:%d", len(distinct)))
	sort.Strings(rec.Tags)
	for _, sp := range sps {
		o := sp.out
		if !o.OK && (o.ErrKind == "syntax" || o.ErrKind == "argument" || o.ErrKind == "notfound" || o.ErrKind == "notsupported") {
			rec.Viol = fmt.Sprintf("the spelling %q was rejected by Parse: %s", sp.text, o.Msg)
			rec.Class = "parse-reject"
			rec.Text = sp.text
			return rec
		}
		if c08Abnormal(o) {
			rec.Viol = fmt.Sprintf("abnormal outcome of the spelling %q: %s", sp.text, clip(o.Detail(), 500))
			rec.Class = "abnormal"
			rec.Text = sp.text
			return rec
		}
	}
	bt := c18Blank(b.tree)
	for _, sp := range sps[1:] {
		switch {
		case b.out.OK != sp.out.OK:
			rec.Viol = fmt.Sprintf("%q gives %s but %q gives %s", b.text, c08Show(b.out), sp.text, c08Show(sp.out))
			rec.Class = "spelling-result"
		case b.out.OK && ValsSexp(b.out.Vals) != ValsSexp(sp.out.Vals):
			rec.Viol = fmt.Sprintf("%q gives %s but %q gives %s", b.text, c08Show(b.out), sp.text, c08Show(sp.out))
			rec.Class = "spelling-result"
		case !b.out.OK && (b.out.ErrKind != sp.out.ErrKind || b.out.Expected != sp.out.Expected || b.out.Found != sp.out.Found):
			rec.Viol = fmt.Sprintf("%q fails with %q but %q fails with %q", b.text, b.out.Msg, sp.text, sp.out.Msg)
			rec.Class = "spelling-error"
		case !b.out.OK && !c18Intersect(b.steps, sp.steps):
			rec.Viol = fmt.Sprintf("%q fails with %q (step %v) but %q fails with %q (step %v)", b.text, b.out.Msg, b.steps, sp.text, sp.out.Msg, sp.steps)
			rec.Class = "spelling-error-step"
		case c18Blank(sp.tree) != bt:
			rec.Viol = fmt.Sprintf("%q and %q are parsed into different trees: %s vs %s", b.text, sp.text, clip(bt, 400), clip(c18Blank(sp.tree), 400))
			rec.Class = "spelling-tree"
		}
		if rec.Viol != "" {
			break
		}
	}
	if !b.out.OK && len(b.steps) == 0 && rec.Viol == "" {
		rec.Viol = fmt.Sprintf("%q fails with %q, which names no step of the path", b.text, b.out.Msg)
		rec.Class = "spelling-error-step"
	}
	exp := "(q err)"
	if b.out.OK {
		exp = "(q ok"
		for _, v := range b.out.Vals {
			exp += " " + ValSexp(v)
		}
		exp += ")"
		rec.Tags = append(rec.Tags, "outcome:ok")
	} else {
		rec.Tags = append(rec.Tags, "outcome:err-"+b.out.ErrKind)
	}
	rec.Q = []LeanQ{{Driver: "spec", Line: "(q run " + b.p.Sexp() + " " + ValSexp(doc) + ")", Expect: exp, What: "result vs Spec.run"}}
	if len(distinct) >= 2 && len(p.Steps)+len(p.Fns) > 0 {
		cl := "err-" + b.out.ErrKind
		if b.out.OK {
			cl = "ok"
		}
		rec.Key = shapeKey(p) + "/" + cl
	}
	return rec
}
