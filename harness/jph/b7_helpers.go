package jph

import (
	"strings"

	"github.com/AsaiYusuke/jsonpath"
)

// Shared helpers of the case classes added for the round-3 seeded changes:
//   - a RE-ENTRANT user filter function `reent` (b7Reent): when called it evaluates the parsed
//     function it belongs to on another document (nested up to len(Docs) levels) and then returns
//     its argument unchanged. For the specification it is the identity, i.e. the registry's `id`
//     (b7AsID rewrites the S-expression of a path accordingly). A parsed function that keeps
//     per-node state between or during evaluations answers differently.
//   - b7InjectReent puts `reent` on operand paths / at the end of a path.
//   - b7AltDoc: a document of the same shape with other scalars.
//   - b7LitLeft: comparisons rewritten so that the literal is the LEFT operand.
//   - b7GenRecCase: records under `$.a` + root scalars, a filter comparing an `@`/`$` operand with
//     a literal in either order.

const b7ReentName = "reent"

type b7Reent struct {
	F      Parsed        // the parsed function under test (set right after Parse)
	Docs   []interface{} // Docs[d]: what a call at nesting depth d evaluates
	Budget int           // inner evaluations left (bounds nested fan-out)
	depth  int
	Calls  int // calls of the user function
	Inner  int // inner evaluations made
	Panic  string
}

func (s *b7Reent) Fn(v interface{}) (interface{}, error) {
	s.Calls++
	if s.F != nil && s.depth < len(s.Docs) && s.Budget > 0 {
		s.Budget--
		s.Inner++
		d := s.Docs[s.depth]
		s.depth++
		if o := SafeCall(s.F, d); o.ErrKind == "panic" && s.Panic == "" {
			s.Panic = o.Panic
		}
		s.depth--
	}
	return v, nil
}

// b7WithReent registers `reent` in cfg (next to whatever is registered already).
func b7WithReent(cfg *jsonpath.Config, s *b7Reent) {
	cfg.SetFilterFunction(b7ReentName, s.Fn)
}

// b7AsID: the S-expression of a rendered path with `reent` resolved to the registry's `id`
// (the recorded text `.reent()` stays).
func b7AsID(sexp string) string {
	t := SexpString("." + b7ReentName + "()")
	return strings.ReplaceAll(sexp, t+" "+SexpString(b7ReentName)+")", t+" "+SexpString("id")+")")
}

func b7SingleSteps(steps []*Step) bool {
	for _, s := range steps {
		if c12IsVgStep(s) {
			return false
		}
	}
	return true
}

// b7InjectReent walks p (operand paths of every filter, nested ones included, and the path
// itself) and with probability pct puts `reent` on a single-valued operand path: appended, or in
// place of an `id`. Returns how many were placed inside `@`-rooted operands, inside `$`-rooted
// operands and at the end of the main path.
func b7InjectReent(r *Rng, p *Path, pct int) (cur, root, tail int) {
	return b7InjectFn(r, p, pct, b7ReentName)
}

// b7InjectFn: the same for a filter function of any name.
func b7InjectFn(r *Rng, p *Path, pct int, fname string) (cur, root, tail int) {
	var doPath func(q *Path, top bool)
	var doQuery func(q *Query)
	put := func(q *Path) bool {
		if !r.Chance(pct) {
			return false
		}
		for k := range q.Fns {
			if !q.Fns[k].Agg && q.Fns[k].Name == "id" {
				q.Fns[k].Name = fname
				return true
			}
		}
		if len(q.Fns) >= 2 {
			return false
		}
		if len(q.Fns) == 1 && r.Chance(50) {
			q.Fns = []Fn{{Name: fname}, q.Fns[0]}
		} else {
			q.Fns = append(q.Fns, Fn{Name: fname})
		}
		return true
	}
	doPath = func(q *Path, top bool) {
		if q == nil {
			return
		}
		for _, s := range q.Steps {
			st := s
			if st.Kind == StDesc {
				st = st.Inner
			}
			if st.Kind == StFilter {
				doQuery(st.Q)
			}
		}
		if top {
			if put(q) {
				tail++
			}
			return
		}
		if !b7SingleSteps(q.Steps) {
			return
		}
		if put(q) {
			if q.Head == HeadCur {
				cur++
			} else {
				root++
			}
		}
	}
	doQuery = func(q *Query) {
		switch q.Kind {
		case QOr, QAnd:
			doQuery(q.A)
			doQuery(q.B)
		case QExist:
			doPath(q.P, false)
		case QCmp:
			if !q.L.IsLit {
				doPath(q.L.Path, false)
			}
			if !q.R.IsLit {
				doPath(q.R.Path, false)
			}
		}
	}
	doPath(p, true)
	return
}

// b7AltDoc: the same shape (no container gets longer), every scalar redrawn with probability rate %.
func b7AltDoc(r *Rng, v interface{}, rate int) interface{} {
	switch t := v.(type) {
	case []interface{}:
		out := make([]interface{}, len(t))
		for i, x := range t {
			out[i] = b7AltDoc(r, x, rate)
		}
		if len(out) > 1 && r.Chance(rate/3) {
			// another order of the members
			r.Shuffle(len(out), func(i, j int) { out[i], out[j] = out[j], out[i] })
		}
		return out
	case map[string]interface{}:
		out := make(map[string]interface{}, len(t))
		for _, k := range sortedKeys(t) {
			out[k] = b7AltDoc(r, t[k], rate)
		}
		return out
	}
	if r.Chance(rate) {
		return c05Scalar(r, v)
	}
	return v
}

// b7LitLeft rewrites comparisons `PATH op LIT` into `LIT op' PATH` (op' the mirrored operator, so
// the meaning is the same) with probability pct; returns how many comparisons now have the
// literal on the left of a `$`-path / of an `@`-path.
func b7LitLeft(r *Rng, p *Path, pct int) (root, cur int) {
	mirror := []int{0, 1, 4, 5, 2, 3}
	var doPath func(q *Path)
	var doQuery func(q *Query)
	doPath = func(q *Path) {
		if q == nil {
			return
		}
		for _, s := range q.Steps {
			st := s
			if st.Kind == StDesc {
				st = st.Inner
			}
			if st.Kind == StFilter {
				doQuery(st.Q)
			}
		}
	}
	doQuery = func(q *Query) {
		switch q.Kind {
		case QOr, QAnd:
			doQuery(q.A)
			doQuery(q.B)
		case QExist, QRegex:
			doPath(q.P)
		case QCmp:
			if !q.L.IsLit && q.R.IsLit && r.Chance(pct) {
				q.L, q.R, q.Op = q.R, q.L, mirror[q.Op]
			}
			if q.L.IsLit && !q.R.IsLit {
				if q.R.Path.Head == HeadRoot {
					root++
				} else {
					cur++
				}
			}
			if !q.L.IsLit {
				doPath(q.L.Path)
			}
			if !q.R.IsLit {
				doPath(q.R.Path)
			}
		}
	}
	doPath(p)
	return
}

// b7GenRecCase: {"a": [records with c / d], "c": …, "d": …, "e": …} and a path whose filter
// compares an operand (`$.d`, `$.c.d`, `@.c`, `$.a[k].c` …) with a literal that usually equals the
// operand's value; litLeft: the literal is written first.
func b7GenRecCase(r *Rng, litLeftPct int) (interface{}, *Path) {
	num := func() interface{} { return float64(r.Range(0, 3)) }
	n := r.Range(1, 5)
	recs := make([]interface{}, n)
	for i := range recs {
		m := map[string]interface{}{}
		for _, k := range []string{"c", "d"} {
			switch r.Weighted([]int{70, 10, 20}) {
			case 0:
				m[k] = num()
			case 1:
				m[k] = r.Pick(StrVals)
			}
		}
		recs[i] = m
	}
	doc := map[string]interface{}{"a": recs}
	if r.Chance(90) {
		doc["d"] = num()
	}
	switch r.Weighted([]int{50, 35, 15}) {
	case 0:
		doc["c"] = map[string]interface{}{"d": num(), "c": num()}
	case 1:
		doc["c"] = num()
	}
	if r.Chance(50) {
		doc["e"] = r.Pick(StrVals)
	}
	child := func(k string) *Step { return &Step{Kind: StChild, Key: k, Bracket: r.Chance(15)} }
	leaf := func() *Query {
		var op *Path
		switch r.Weighted([]int{30, 15, 8, 25, 10, 7, 5}) {
		case 0:
			op = &Path{Head: HeadRoot, Steps: []*Step{child("d")}}
		case 1:
			op = &Path{Head: HeadRoot, Steps: []*Step{child("c"), child("d")}}
		case 2:
			op = &Path{Head: HeadRoot, Steps: []*Step{child("c")}}
		case 3:
			op = &Path{Head: HeadCur, Steps: []*Step{child("c")}}
		case 4:
			op = &Path{Head: HeadCur, Steps: []*Step{child("d")}}
		case 5:
			op = &Path{Head: HeadRoot, Steps: []*Step{child("a"), {Kind: StUnion, Subs: []Sub{{Kind: SubIdx, N: int64(r.Range(-1, n-1))}}}, child("c")}}
		default:
			op = &Path{Head: HeadRoot, Steps: []*Step{child("e")}}
		}
		// the value the operand has (for an `@`-path: in a random record)
		var from interface{} = doc
		if op.Head == HeadCur {
			from = recs[r.Intn(n)]
		}
		v, ok := from, true
		for _, s := range op.Steps {
			switch t := v.(type) {
			case map[string]interface{}:
				if s.Kind == StChild {
					v, ok = t[s.Key]
				} else {
					ok = false
				}
			case []interface{}:
				if s.Kind == StUnion {
					ix := int(s.Subs[0].N)
					if ix < 0 {
						ix += len(t)
					}
					v = t[ix]
				} else {
					ok = false
				}
			default:
				ok = false
			}
			if !ok {
				break
			}
		}
		cmp := r.Weighted([]int{40, 30, 8, 7, 8, 7})
		lit := litFor(r, v, ok)
		if f, isNum := v.(float64); ok && isNum && r.Chance(70) {
			lit = Lit{Kind: LitNum, N: int64(f)}
		}
		if cmp >= 2 && lit.Kind != LitNum {
			lit = Lit{Kind: LitNum, N: int64(r.Range(0, 3))}
		}
		q := &Query{Kind: QCmp, Op: cmp, L: &Operand{Path: op}, R: &Operand{IsLit: true, Lit: lit}}
		if r.Chance(litLeftPct) {
			q.L, q.R = q.R, q.L
		}
		return q
	}
	q := leaf()
	if r.Chance(30) {
		var other *Query
		if r.Chance(50) {
			other = leaf()
		} else {
			other = &Query{Kind: QExist, Neg: r.Chance(30), P: &Path{Head: HeadCur, Steps: []*Step{child(r.Pick([]string{"c", "d"}))}}}
		}
		k := QAnd
		if r.Chance(50) {
			k = QOr
		}
		if r.Chance(50) {
			q = &Query{Kind: k, A: q, B: other}
		} else {
			q = &Query{Kind: k, A: other, B: q}
		}
	}
	p := &Path{Head: HeadRoot}
	fs := &Step{Kind: StFilter, Q: q}
	switch r.Weighted([]int{70, 15, 15}) {
	case 0:
		p.Steps = []*Step{child("a"), fs}
	case 1:
		p.Steps = []*Step{{Kind: StDesc, Inner: fs}}
	default:
		p.Steps = []*Step{child("a"), {Kind: StUnion, Subs: []Sub{{Kind: SubSlice}}}, fs}
		// `$.a[:][?(…)]` filters the members of every record
	}
	if r.Chance(30) {
		p.Steps = append(p.Steps, child(r.Pick([]string{"c", "d"})))
	}
	return doc, p
}
