package jph

import (
	"fmt"
	"sort"
	"strings"

	"github.com/AsaiYusuke/jsonpath"
)

// C08 — steps compose: P followed by Q equals Q applied to each result of P.
//
// Relational, on the real library alone (no model): for a generated path S (steps and
// trailing functions) and every split position k whose continuation Q = S[k:] contains no
// `$`-rooted filter operand and no aggregate function,
//
//	results(P++Q, d) = concat over v in results(P, d) of results(`$`+Q, v)
//
// where a failing branch contributes nothing, and P++Q fails exactly when the
// concatenation is empty (in particular when P fails).
// 12% of the documents hold the SAME map / slice value at two or more places (ShareSubtrees,
// b8_helpers.go: a DAG, as a value the tree that is printed); their paths always contain `..`
// and the full result is put to jpv-spec on the document as a value as well.
// An eighth of the multi-name selectors are LONG (8..40 quoted names, more than the object has members, present
// names unsorted and repeated; LongNames in b9_scale.go). One case in 100 is of class scale: either a generated
// document with padded containers (arrays up to 1100 elements, objects up to 70 members) and a path that applies
// a wildcard / long union / slice / long multi-name list / filter to a padded container, or (half of them) SEVERAL
// arrays side by side, short ones first and one or two long ones (64..1100) later, under a path `P[*]` / `P.*`
// whose P selects all of them (`$[*][*]`, `$.*[*]`, `$.a[*].*`, `$..[*]` …). Half of the scale cases start from
// empty buffer pools (FreshPools: two garbage collections, the state of a program that has just started).
// Two instances are checked with their own right-hand sides:
//   - `..X rest`   = `$`+X+rest applied to every container below each value the prefix
//     selects, in pre-order (containers enumerated here in Go);
//   - `[s1,…,sn] rest` (union or multi-name) = concat over the single selectors.

type c08 struct{}

func init() { Props["C08"] = c08{} }

func (c08) Count(tier string) int {
	if tier == "thorough" {
		return 4000000
	}
	return 120000
}

var c08KindNames = []string{"child", "wild", "multi", "union", "filter", "desc"}

func c08StepName(s *Step) string {
	if s.Kind == StDesc {
		return "desc+" + c08Form(s.Inner)
	}
	return c08Form(s)
}

// c08Form names the bracket form of a step (the forms the property enumerates).
func c08Form(s *Step) string {
	switch s.Kind {
	case StChild:
		if s.Bracket || !DotSpellable(s.Key) {
			return "['a']"
		}
		return ".a"
	case StWild:
		if s.Bracket {
			return "[*]"
		}
		return ".*"
	case StMulti:
		return "['a','b']"
	case StUnion:
		if len(s.Subs) > 1 {
			return "[0,1]"
		}
		switch s.Subs[0].Kind {
		case SubIdx:
			return "[0]"
		case SubSlice:
			return "[1:3]"
		}
		return "[*]u"
	case StFilter:
		return "[?()]"
	}
	return "desc"
}

// ---- scanning for what a continuation must not contain ----

func c08PathHasRoot(p *Path) bool {
	if p == nil {
		return false
	}
	if p.Head == HeadRoot {
		return true
	}
	for _, s := range p.Steps {
		if c08StepHasRoot(s) {
			return true
		}
	}
	return false
}

func c08QueryHasRoot(q *Query) bool {
	switch q.Kind {
	case QOr, QAnd:
		return c08QueryHasRoot(q.A) || c08QueryHasRoot(q.B)
	case QExist, QRegex:
		return c08PathHasRoot(q.P)
	case QCmp:
		return (!q.L.IsLit && c08PathHasRoot(q.L.Path)) || (!q.R.IsLit && c08PathHasRoot(q.R.Path))
	}
	return false
}

func c08StepHasRoot(s *Step) bool {
	switch s.Kind {
	case StFilter:
		return c08QueryHasRoot(s.Q)
	case StDesc:
		return c08StepHasRoot(s.Inner)
	}
	return false
}

// c08PathHasAgg: an aggregate anywhere inside the filters of the step (operand paths).
func c08PathHasAgg(p *Path) bool {
	if p == nil {
		return false
	}
	for _, f := range p.Fns {
		if f.Agg {
			return true
		}
	}
	for _, s := range p.Steps {
		if c08StepHasAgg(s) {
			return true
		}
	}
	return false
}

func c08QueryHasAgg(q *Query) bool {
	switch q.Kind {
	case QOr, QAnd:
		return c08QueryHasAgg(q.A) || c08QueryHasAgg(q.B)
	case QExist, QRegex:
		return c08PathHasAgg(q.P)
	case QCmp:
		return (!q.L.IsLit && c08PathHasAgg(q.L.Path)) || (!q.R.IsLit && c08PathHasAgg(q.R.Path))
	}
	return false
}

func c08StepHasAgg(s *Step) bool {
	switch s.Kind {
	case StFilter:
		return c08QueryHasAgg(s.Q)
	case StDesc:
		return c08StepHasAgg(s.Inner)
	}
	return false
}

// ---- generation ----

// c08Containers: every container below v, v first, in pre-order (object members in
// ascending key order, array members in index order).
func c08Containers(v interface{}, out []interface{}) []interface{} {
	switch t := v.(type) {
	case map[string]interface{}:
		out = append(out, v)
		keys := make([]string, 0, len(t))
		for k := range t {
			keys = append(keys, k)
		}
		sort.Strings(keys)
		for _, k := range keys {
			out = c08Containers(t[k], out)
		}
	case []interface{}:
		out = append(out, v)
		for _, x := range t {
			out = c08Containers(x, out)
		}
	}
	return out
}

// c08DescStep builds `..` followed by the requested form, modelled on a container found
// below `node` (so that the inner step hits somewhere); returns a representative result.
func c08DescStep(r *Rng, o GenOpts, root, node interface{}, ok bool, form int) (*Step, interface{}, bool) {
	var cs []interface{}
	if ok {
		cs = c08Containers(node, nil)
	}
	wantMap := form <= 1 || form == 7
	wantArr := form >= 3 && form <= 5
	var pool []interface{}
	for _, c := range cs {
		_, isMap := c.(map[string]interface{})
		if (wantMap && isMap) || (wantArr && !isMap) || (!wantMap && !wantArr) {
			pool = append(pool, c)
		}
	}
	if len(pool) == 0 {
		pool = cs
	}
	var c interface{}
	cok := false
	if len(pool) > 0 {
		c, cok = pool[r.Intn(len(pool))], true
	}
	m, isMap := c.(map[string]interface{})
	a, isArr := c.([]interface{})
	keyOf := func() string {
		if isMap && len(m) > 0 && !r.Chance(10) {
			ks := sortedKeys(m)
			return ks[r.Intn(len(ks))]
		}
		return o.key(r)
	}
	idxOf := func() int64 {
		if isArr && len(a) > 0 && !r.Chance(10) {
			ix := r.Intn(len(a))
			if r.Chance(25) {
				return int64(ix - len(a))
			}
			return int64(ix)
		}
		return int64(r.Range(-3, 3))
	}
	var inner *Step
	var rep interface{}
	repOK := false
	switch form {
	case 0: // ['a']
		k := keyOf()
		inner = &Step{Kind: StChild, Key: k, Bracket: true, DQuote: r.Chance(30)}
		if isMap {
			rep, repOK = m[k]
		}
	case 1: // ['a','b'] (sometimes with a wildcard)
		n := r.Range(2, 3)
		names := make([]Name, n)
		for i := range names {
			if r.Chance(12) {
				names[i] = Name{Wild: true}
			} else {
				names[i] = Name{Key: keyOf()}
				if isMap {
					if v, has := m[names[i].Key]; has {
						rep, repOK = v, true
					}
				}
			}
		}
		inner = &Step{Kind: StMulti, Names: names}
	case 2: // [*]
		inner = &Step{Kind: StWild, Bracket: true}
		rep, repOK = pickMember(r, c)
	case 3: // [0]
		n := idxOf()
		inner = &Step{Kind: StUnion, Subs: []Sub{{Kind: SubIdx, N: n}}}
		rep, repOK = pickMember(r, c)
	case 4: // [0,1]
		inner = &Step{Kind: StUnion, Subs: []Sub{{Kind: SubIdx, N: idxOf()}, {Kind: SubIdx, N: idxOf()}}}
		if r.Chance(25) {
			inner.Subs = append(inner.Subs, o.genSub(r, len(a)))
		}
		rep, repOK = pickMember(r, c)
	case 5: // [1:3]
		s := o.genSub(r, len(a))
		for s.Kind != SubSlice {
			s = o.genSub(r, len(a))
		}
		inner = &Step{Kind: StUnion, Subs: []Sub{s}}
		rep, repOK = pickMember(r, c)
	case 6: // [?()]
		inner = &Step{Kind: StFilter, Q: o.genQuery(r, root, c, 2)}
		rep, repOK = pickMember(r, c)
	case 7: // ..a
		k := keyOf()
		inner = &Step{Kind: StChild, Key: k}
		if isMap {
			rep, repOK = m[k]
		}
	default: // ..*
		inner = &Step{Kind: StWild}
		rep, repOK = pickMember(r, c)
	}
	return &Step{Kind: StDesc, Inner: inner}, rep, repOK && cok
}

type c08Case struct {
	doc    interface{}
	steps  []*Step
	fns    []Fn
	shared []string // ShareSubtrees: which containers are one Go object at two places
	tags   []string
	fresh  bool // evaluate the full path with empty buffer pools
}

// c08ScaleCase: class scale (see the head of the file).
func c08ScaleCase(r *Rng) c08Case {
	o := DefaultOpts()
	o.ErrBias = 6
	o.NoRootOps = true
	var c c08Case
	c.fresh = r.Chance(50)
	c.tags = []string{"class:scale"}
	if c.fresh {
		c.tags = append(c.tags, "scale:fresh-pools")
	}
	if r.Chance(50) {
		// several arrays side by side, a long one later
		n := r.Range(2, 5)
		arrs := make([]interface{}, n)
		long := 0
		for k := range arrs {
			ln := r.Range(1, 5)
			if k > 0 && (r.Chance(45) || (k == n-1 && long == 0)) {
				ln = []int{64, 65, 70, 130, 257, 300, 1100}[r.Intn(7)]
				long++
			}
			a := make([]interface{}, ln)
			rec := r.Chance(25)
			for x := range a {
				if rec {
					a[x] = map[string]interface{}{"a": float64(1000*k + x), "b": GenScalar(r)}
				} else {
					a[x] = float64(1000*k + x)
				}
			}
			arrs[k] = a
		}
		var holder interface{} = arrs
		byKey := r.Chance(40)
		if byKey {
			m := map[string]interface{}{}
			for k, a := range arrs {
				m[[]string{"a", "b", "c", "d", "e"}[k]] = a
			}
			holder = m
		}
		var all *Step
		switch r.Weighted([]int{55, 15, 15, 15}) {
		case 0:
			all = &Step{Kind: StWild, Bracket: r.Chance(50)}
		case 1:
			if byKey {
				all = &Step{Kind: StMulti, Names: []Name{{Key: "a"}, {Key: "b"}, {Key: "c"}, {Key: "d"}, {Key: "e"}}[:n]}
			} else {
				sl := Sub{Kind: SubSlice}
				all = &Step{Kind: StUnion, Subs: []Sub{sl}}
			}
		case 2:
			all = &Step{Kind: StFilter, Q: &Query{Kind: QExist, P: &Path{Head: HeadCur}}}
		default:
			all = nil // `..[*]` below
		}
		last := &Step{Kind: StWild, Bracket: r.Chance(70)}
		c.doc = holder
		if r.Chance(40) {
			k := r.Pick(BaseKeys)
			c.doc = map[string]interface{}{k: holder, "z": GenScalar(r)}
			c.steps = append(c.steps, &Step{Kind: StChild, Key: k})
		}
		if all == nil {
			c.steps = append(c.steps, &Step{Kind: StDesc, Inner: &Step{Kind: StWild, Bracket: true}})
		} else {
			c.steps = append(c.steps, all, last)
		}
		if r.Chance(20) {
			c.steps = append(c.steps, &Step{Kind: StChild, Key: "a"})
		}
		c.tags = append(c.tags, "scale:several-arrays-a-long-one-later")
		return c
	}
	doc, inf := ScaleDoc(r, o, InflateOpts{Arrays: true, Objects: true, MaxNodes: 1500})
	c.doc = doc
	var p *Path
	if len(inf) > 0 {
		p = ScalePath(r, doc, inf[r.Intn(len(inf))], o, 40)
	} else {
		p = o.genPathFrom(r, doc, doc, HeadRoot, 4, false)
	}
	c.steps = p.Steps
	if r.Chance(15) {
		c.fns = append(c.fns, Fn{Name: FilterFns[r.Weighted([]int{30, 25, 25, 8, 12})]})
	}
	c.tags = append(c.tags, ScaleTags(inf)...)
	return c
}

func c08Gen(r *Rng) c08Case {
	oP := DefaultOpts()
	oP.ErrBias = 8
	oP.BigInts = true
	oQ := oP
	oQ.NoRootOps = true
	doc := GenDoc(r, oP, 0)
	// a scalar document exercises nothing
	for tries := 0; tries < 4; tries++ {
		if len(c08Containers(doc, nil)) >= 2 {
			break
		}
		doc = GenDoc(r, oP, 0)
	}
	var c c08Case
	// shared sub-containers (12% of the cases): the same map / slice VALUE at two or more places (a DAG
	// assembled in Go; as a value still a tree). The path then always has a `..`, in half of these
	// cases as the first step, i.e. evaluated above all occurrences.
	if r.Chance(12) {
		doc, c.shared = ShareSubtrees(doc, r)
	}
	c.doc = doc
	node, ok := doc, true
	nP := r.Weighted([]int{10, 50, 30, 10})
	nQ := 1 + r.Weighted([]int{45, 40, 15})
	forcedAt := -1
	if r.Chance(45) {
		forcedAt = r.Intn(nP + nQ)
	}
	if len(c.shared) > 0 {
		forcedAt = r.Intn(nP + nQ)
		if r.Chance(50) {
			forcedAt = 0
		}
	}
	for i := 0; i < nP+nQ; i++ {
		o := oP
		if i >= nP {
			o = oQ
		}
		var s *Step
		before := node
		if i == forcedAt {
			s, node, ok = c08DescStep(r, o, doc, node, ok, r.Intn(9))
		} else {
			s, node, ok = o.genStep(r, doc, node, ok, true)
		}
		if s.Kind == StMulti && r.Chance(12) {
			// a long list of names
			m, _ := before.(map[string]interface{})
			s.Names = LongNames(r, m, r.Range(8, 40), BaseKeys, 6)
		}
		c.steps = append(c.steps, s)
	}
	if r.Chance(25) {
		if r.Chance(30) {
			c.fns = append(c.fns, Fn{Agg: true, Name: AggFns[r.Weighted([]int{25, 25, 20, 22, 8})]})
		}
		n := r.Range(1, 2)
		for i := 0; i < n; i++ {
			c.fns = append(c.fns, Fn{Name: FilterFns[r.Weighted([]int{30, 25, 25, 8, 12})]})
		}
	}
	return c
}

// ---- evaluation ----

func c08Abnormal(o Outcome) bool {
	if o.OK {
		return false
	}
	switch o.ErrKind {
	case "member", "type", "func":
		return o.Both
	}
	return true
}

type c08Eval struct {
	cfg  jsonpath.Config
	viol string
	cls  string
	info map[string]interface{}
}

func (e *c08Eval) fail(cls, format string, args ...interface{}) {
	if e.viol == "" {
		e.viol = fmt.Sprintf(format, args...)
		e.cls = cls
	}
}

// run parses and evaluates; abnormal outcomes are violations by themselves.
func (e *c08Eval) run(p *Path, doc interface{}) Outcome {
	text := Render(p, nil)
	out := Run(text, doc, &e.cfg)
	if c08Abnormal(out) {
		e.fail("abnormal", "abnormal outcome of %s on %s: %s", text, JSONText(doc), clip(out.Detail(), 600))
	}
	return out
}

// each applies `$`+Q (parsed once) to every value and concatenates what the branches give.
func (e *c08Eval) each(q *Path, vals []interface{}) (concat []interface{}, failed int, text string) {
	text = Render(q, nil)
	f, out := SafeParse(text, &e.cfg)
	if f == nil {
		e.fail("abnormal", "continuation %s was rejected by Parse: %s", text, clip(out.Detail(), 600))
		return nil, len(vals), text
	}
	for _, v := range vals {
		o := SafeCall(f, v)
		if c08Abnormal(o) {
			e.fail("abnormal", "abnormal outcome of %s on %s: %s", text, JSONText(v), clip(o.Detail(), 600))
		}
		if o.OK {
			concat = append(concat, o.Vals...)
		} else {
			failed++
		}
	}
	return concat, failed, text
}

func c08Same(full Outcome, concat []interface{}) bool {
	if len(concat) == 0 {
		return !full.OK
	}
	return full.OK && ValsSexp(full.Vals) == ValsSexp(concat)
}

func c08Show(full Outcome) string {
	if full.OK {
		return "[" + clip(ValsSexp(full.Vals), 400) + "]"
	}
	return "error(" + full.ErrKind + ")"
}

// singles: the single selectors of a union / multi-name step.
func c08Singles(s *Step) []*Step {
	var out []*Step
	switch s.Kind {
	case StUnion:
		for _, sub := range s.Subs {
			out = append(out, &Step{Kind: StUnion, Subs: []Sub{sub}})
		}
	case StMulti:
		for _, n := range s.Names {
			if n.Wild {
				out = append(out, &Step{Kind: StWild, Bracket: true})
			} else {
				out = append(out, &Step{Kind: StChild, Key: n.Key, Bracket: true})
			}
		}
	}
	return out
}

func c08HasWildSub(s *Step) bool {
	for _, sub := range s.Subs {
		if sub.Kind == SubWild {
			return true
		}
	}
	return false
}

func c08MixedMulti(s *Step) bool {
	if s.Kind != StMulti {
		return false
	}
	w, k := false, false
	for _, n := range s.Names {
		if n.Wild {
			w = true
		} else {
			k = true
		}
	}
	return w && k
}

func (c08) Exec(seed int64, i int, tier string) Record {
	if i%20 == 9 {
		// classes overlap-probe / kth-fault-probe (b15_overlap.go): composition also holds for a parsed function that is
		// evaluated on two documents at overlapping times, and when the continuation's function fails on its k-th call only
		return b15Case("C08", CaseRng(seed, "C08", i))
	}
	r := CaseRng(seed, "C08", i)
	e := &c08Eval{cfg: Config(false, nil)}
	// most cases should select something: redraw a failing case a few times (one case in
	// five is taken as drawn, so that wholly failing paths stay in the population)
	attempts := 6
	if r.Chance(20) {
		attempts = 1
	}
	var c c08Case
	var fullPath *Path
	var fullText string
	var full Outcome
	scale := i%100 == 13
	for a := 0; a < attempts; a++ {
		if scale {
			c = c08ScaleCase(r)
		} else {
			c = c08Gen(r)
		}
		fullPath = &Path{Head: HeadRoot, Steps: c.steps, Fns: c.fns}
		fullText = Render(fullPath, nil)
		if c.fresh {
			FreshPools()
		}
		full = Run(fullText, c.doc, &e.cfg)
		if full.OK || c08Abnormal(full) {
			break
		}
	}
	rec := Record{Text: fullText, Doc: JSONText(c.doc), Info: map[string]interface{}{}}
	fullSexp := fullPath.Sexp() // before the sub-paths are rendered (rendering records the step texts)
	if len(c.shared) > 0 {
		rec.Info["shared_containers"] = c.shared
		rec.Info["shared_note"] = "the document is assembled in Go so that these places hold the SAME map / slice value (a DAG, no cycle; places as of the moment each was shared); as a value it is the tree printed in doc"
	}
	if !full.OK && (full.ErrKind == "syntax" || full.ErrKind == "argument" || full.ErrKind == "notfound" || full.ErrKind == "notsupported") {
		rec.Viol = "generated path was rejected by Parse: " + full.Msg
		rec.Class = "parse-reject"
		return rec
	}
	if c08Abnormal(full) {
		rec.Viol = "abnormal outcome: " + clip(full.Detail(), 600)
		rec.Class = "abnormal"
		return rec
	}
	tags := map[string]bool{}
	for _, t := range c.tags {
		tags[t] = true
	}
	if n := scaleMaxNames(fullPath); n >= 8 {
		tags["multi:long-list"] = true
	}
	if full.OK {
		tags["full:ok"] = true
	} else {
		tags["full:err-"+full.ErrKind] = true
	}
	ns, nf := len(c.steps), len(c.fns)
	lastAgg := -1
	for j, f := range c.fns {
		if f.Agg {
			lastAgg = j
		}
	}
	// first step index from which the rest of the steps is free of `$` operands
	firstFree := ns
	for k := ns - 1; k >= 0; k-- {
		if c08StepHasRoot(c.steps[k]) {
			break
		}
		firstFree = k
	}
	nontrivial := ""
	splits := 0
	// position k in 0..ns+nf: P = elements [0,k), Q = elements [k, ns+nf)
	for k := 1; k < ns+nf; k++ {
		var P, Q *Path
		var lastP, firstQ string
		if k <= ns {
			if k < firstFree || lastAgg >= 0 {
				continue
			}
			P = &Path{Head: HeadRoot, Steps: c.steps[:k]}
			Q = &Path{Head: HeadRoot, Steps: c.steps[k:], Fns: c.fns}
			lastP = c08StepName(c.steps[k-1])
			if k < ns {
				firstQ = c08StepName(c.steps[k])
			} else {
				firstQ = "fn"
			}
		} else {
			j := k - ns
			if j <= lastAgg {
				continue
			}
			P = &Path{Head: HeadRoot, Steps: c.steps, Fns: c.fns[:j]}
			Q = &Path{Head: HeadRoot, Fns: c.fns[j:]}
			lastP = "fn"
			if c.fns[j-1].Agg {
				lastP = "agg"
			}
			firstQ = "fn"
		}
		splits++
		pOut := e.run(P, c.doc)
		pText := Render(P, nil)
		var concat []interface{}
		failed := 0
		qText := ""
		if pOut.OK {
			concat, failed, qText = e.each(Q, pOut.Vals)
		} else {
			qText = Render(Q, nil)
		}
		tags["P-last:"+lastP] = true
		tags["Q-first:"+firstQ] = true
		if strings.HasPrefix(lastP, "desc+") && k < ns {
			tags["P-last:desc+bracket, Q has steps"] = true
		}
		if strings.HasPrefix(firstQ, "desc+") && k+1 < ns {
			tags["Q-first:"+firstQ+", more steps"] = true
		}
		if !c08Same(full, concat) {
			pres := "fails"
			if pOut.OK {
				pres = fmt.Sprintf("selects %d value(s)", len(pOut.Vals))
			}
			e.fail("compose", "%s gives %s, but P=%s %s and Q=%s over them gives [%s]", fullText, c08Show(full), pText, pres, qText, clip(ValsSexp(concat), 400))
			rec.Info["P"], rec.Info["Q"] = pText, qText
		}
		if pOut.OK && len(concat) > 0 {
			cl := "one"
			if len(pOut.Vals) > 1 {
				cl = "many"
				if failed > 0 {
					cl = "many-partial"
				}
			}
			if cl > nontrivial || nontrivial == "" {
				nontrivial = cl
			}
			tags["branches:"+cl] = true
		} else if pOut.OK {
			tags["branches:all-fail"] = true
		} else {
			tags["branches:P-fails"] = true
		}
	}
	// instances: a step at position k that is `..X`, a union or a multi-name selector,
	// with a `$`-free, aggregate-free rest
	for k := 0; k < ns; k++ {
		s := c.steps[k]
		if k < firstFree || lastAgg >= 0 {
			continue
		}
		isInst := s.Kind == StDesc || s.Kind == StMulti || (s.Kind == StUnion && len(s.Subs) > 1)
		if !isInst {
			continue
		}
		prefix := &Path{Head: HeadRoot, Steps: c.steps[:k]}
		pOut := e.run(prefix, c.doc)
		var expect []interface{}
		what := ""
		if s.Kind == StDesc {
			tags["inst:"+c08StepName(s)] = true
			what = "X over the containers in pre-order"
			if pOut.OK {
				var cs []interface{}
				for _, v := range pOut.Vals {
					cs = c08Containers(v, cs)
				}
				rest := append([]*Step{s.Inner}, c.steps[k+1:]...)
				expect, _, _ = e.each(&Path{Head: HeadRoot, Steps: rest, Fns: c.fns}, cs)
				if len(cs) > 1 && len(expect) > 0 {
					tags["inst:desc-nontrivial"] = true
					if k+1 < ns {
						tags["inst:"+c08StepName(s)+"+more"] = true
					}
					if nontrivial == "" {
						nontrivial = "desc"
					}
				}
			}
		} else {
			tags["inst:"+c08Form(s)] = true
			what = "the concatenation of the single selectors"
			if pOut.OK {
				singles := c08Singles(s)
				fs := make([]Parsed, len(singles))
				for j, one := range singles {
					rest := append([]*Step{one}, c.steps[k+1:]...)
					text := Render(&Path{Head: HeadRoot, Steps: rest, Fns: c.fns}, nil)
					f, o := SafeParse(text, &e.cfg)
					if f == nil {
						e.fail("abnormal", "single selector path %s was rejected by Parse: %s", text, clip(o.Detail(), 600))
					}
					fs[j] = f
				}
				hit := 0
				for _, v := range pOut.Vals {
					// the `*` of a union is the array wildcard and the `*` of a multi-name selector the
					// object wildcard (an all-`*` multi-name selector serves both): a union applies to
					// arrays only, a selector with a name to objects only (Spec.sel gives [] otherwise,
					// the library a type error) while a lone `[*]` applies to both — such values
					// contribute nothing and are not decomposed
					_, isArr := v.([]interface{})
					_, isMap := v.(map[string]interface{})
					if (s.Kind == StUnion && isMap && c08HasWildSub(s)) || (isArr && c08MixedMulti(s)) {
						tags["inst:wildcard-of-other-container-kind(skipped)"] = true
						continue
					}
					for _, f := range fs {
						if f == nil {
							continue
						}
						o := SafeCall(f, v)
						if c08Abnormal(o) {
							e.fail("abnormal", "abnormal outcome of a single selector on %s: %s", JSONText(v), clip(o.Detail(), 600))
						}
						if o.OK {
							expect = append(expect, o.Vals...)
							hit++
						}
					}
				}
				if hit > 1 {
					tags["inst:selectors-nontrivial"] = true
					if nontrivial == "" {
						nontrivial = "sel"
					}
				}
			}
		}
		if !c08Same(full, expect) {
			e.fail("instance", "%s gives %s, but %s (step %d, %s) gives [%s]", fullText, c08Show(full), what, k, c08StepName(s), clip(ValsSexp(expect), 400))
		}
	}
	if splits == 0 {
		tags["split:none"] = true
	}
	if len(c.shared) > 0 {
		tags["doc:shared-container"] = true
		if full.OK {
			tags["doc:shared-container, full ok"] = true
		}
		// the specification sees the value (the unfolded tree)
		exp := "(q err)"
		if full.OK {
			exp = "(q ok"
			for _, v := range full.Vals {
				exp += " " + ValSexp(v)
			}
			exp += ")"
		}
		rec.Q = []LeanQ{{Driver: "spec", Line: "(q run " + fullSexp + " " + ValSexp(c.doc) + ")", Expect: exp,
			What: "result on a document with shared sub-containers vs Spec.run on the document as a value"}}
	}
	for t := range tags {
		rec.Tags = append(rec.Tags, t)
	}
	sort.Strings(rec.Tags)
	rec.Viol, rec.Class = e.viol, e.cls
	if nontrivial != "" {
		rec.Key = shapeKey(fullPath) + "/" + nontrivial
	}
	return rec
}
