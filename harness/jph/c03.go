package jph

import (
	"context"
	"database/sql"
	"encoding/json"
	"io"
	"os"
	"fmt"
	"regexp"
	"strconv"
	"strings"
	"time"

	"github.com/AsaiYusuke/jsonpath"
)

// C03 — evaluation is total: a parsed function returns a non-empty result with a nil error,
// or a nil slice with ErrorMemberNotExist | ErrorTypeUnmatched | ErrorFunctionFailed.
//
// Model-free oracle on the real code. Paths: the parsable strings of the C02 generators
// (valid random paths with boundary integers, mutants of them and of the suite's paths,
// token soup, number spellings, nesting, the reduced-grammar sentences). Documents: the one
// the path was generated for, random documents, the suite's inputs, empty containers, null
// and scalar roots, long arrays, deep nesting, non-integral and huge numbers — each decoded
// with and without UseNumber. ErrorFunctionFailed is accepted only if a registered function
// returned an error during that very call, and the error it carries is one of those errors.

type c03 struct{}

func init() { Props["C03"] = c03{} }

func (c03) Count(tier string) int {
	if tier == "thorough" {
		return 3000000
	}
	return 200000
}

// c03Rec records the errors user functions return during one call.
type c03Rec struct {
	n        int
	texts    map[string][]string // error text -> names of the functions that returned it
	calls    int
	sentinel error // class sentinel: every failing function returns exactly this error value
}

func (rc *c03Rec) reset() { rc.n, rc.calls, rc.texts = 0, 0, map[string][]string{} }

func (rc *c03Rec) fail(name string) error {
	rc.n++
	var e error = fmt.Errorf("fail#%d", rc.n)
	if rc.sentinel != nil {
		e = rc.sentinel
	}
	rc.texts[e.Error()] = append(rc.texts[e.Error()], name)
	return e
}

// c03Sentinels: error VALUES of the standard library a user function may well hand through. They are
// errors like any other: the evaluation fails with ErrorFunctionFailed (or skips the member in a value group).
var c03Sentinels = []error{io.EOF, io.ErrUnexpectedEOF, context.Canceled, os.ErrNotExist, context.DeadlineExceeded, io.ErrShortBuffer, os.ErrClosed, sql.ErrNoRows}

// c03Config: the registry plus every function name of the text, all wrapped by the recorder.
func c03Config(s string, acc bool, rc *c03Rec) *jsonpath.Config {
	c := jsonpath.Config{}
	addF := func(name string, f func(interface{}) (interface{}, error), junk bool) {
		c.SetFilterFunction(name, func(v interface{}) (interface{}, error) {
			rc.calls++
			res, err := f(v)
			if err != nil {
				if junk {
					return "junk", rc.fail(name)
				}
				return nil, rc.fail(name)
			}
			return res, nil
		})
	}
	addA := func(name string, f func([]interface{}) (interface{}, error), junk bool) {
		c.SetAggregateFunction(name, func(vs []interface{}) (interface{}, error) {
			rc.calls++
			res, err := f(vs)
			if err != nil {
				if junk {
					return []interface{}{"junk"}, rc.fail(name)
				}
				return nil, rc.fail(name)
			}
			return res, nil
		})
	}
	for name, f := range filterImpl {
		addF(name, f, false)
	}
	for name, f := range aggImpl {
		addA(name, f, false)
	}
	for _, name := range c02FnNames(s) {
		if _, ok := filterImpl[name]; ok {
			continue
		}
		if _, ok := aggImpl[name]; ok {
			continue
		}
		switch c02Hash(name) % 8 {
		case 0:
			addF(name, fnID, false)
		case 1:
			addF(name, fnFailAll, true)
		case 2:
			addF(name, fnWrap, false)
		case 3:
			addF(name, func(interface{}) (interface{}, error) { return nil, nil }, false)
		case 4:
			addA(name, agCount, false)
		case 5:
			addA(name, agFail, true)
		case 6:
			addA(name, agList, false)
		case 7:
			addA(name, agFirst, false)
		}
	}
	if acc {
		c.SetAccessorMode()
	}
	return &c
}

// ---------- documents ----------

type c03Doc struct {
	kind string
	doc  interface{}
}

var c03OddFloats = []float64{1.5, -0.5, 1e300, -1e300, 5e-324, 9007199254740993, 0.1, 2147483648, -2147483649, 1e21}
var c03OddJnums = []string{"1.5", "-0", "1E2", "1e400", "-1e400", "0.0000001", "123456789012345678901234567890", "1e-400", "9223372036854775808", "0.1e1"}

// c03Perturb replaces some numbers by non-integral / huge ones.
func c03Perturb(v interface{}, r *Rng) interface{} {
	switch t := v.(type) {
	case float64:
		if r.Chance(30) {
			return c03OddFloats[r.Intn(len(c03OddFloats))]
		}
		return t
	case []interface{}:
		out := make([]interface{}, len(t))
		for i, x := range t {
			out[i] = c03Perturb(x, r)
		}
		return out
	case map[string]interface{}:
		out := make(map[string]interface{}, len(t))
		for _, k := range sortedKeys(t) {
			out[k] = c03Perturb(t[k], r)
		}
		return out
	}
	return v
}

// c03Jnum: the UseNumber decoding of the same text (any float64, not only integers).
func c03Jnum(v interface{}, r *Rng) interface{} {
	switch t := v.(type) {
	case float64:
		if r != nil && r.Chance(8) {
			return json.Number(c03OddJnums[r.Intn(len(c03OddJnums))])
		}
		return json.Number(strconv.FormatFloat(t, 'g', -1, 64))
	case []interface{}:
		out := make([]interface{}, len(t))
		for i, x := range t {
			out[i] = c03Jnum(x, r)
		}
		return out
	case map[string]interface{}:
		out := make(map[string]interface{}, len(t))
		for _, k := range sortedKeys(t) {
			out[k] = c03Jnum(t[k], r)
		}
		return out
	}
	return v
}

// c03Mult counts the path constructs that multiply results (`..`, `*`, `,`, `:`). The size of
// a result — hence the time to produce it — is exponential in the number of such steps times
// the document depth (`$[*,*][*,*]…` doubles per level) by the semantics of the language
// itself, so deep documents are only paired with paths that have few of them.
func c03Mult(s string) int {
	return strings.Count(s, "..") + strings.Count(s, "*") + strings.Count(s, ",") + strings.Count(s, ":")
}

func c03Deep(r *Rng, maxDepth int) interface{} {
	var v interface{} = float64(r.Range(0, 3))
	d := r.Range(5, maxDepth)
	for i := 0; i < d; i++ {
		if r.Chance(50) {
			v = []interface{}{v, float64(i)}
		} else {
			v = map[string]interface{}{r.Pick(BaseKeys): v, "b": float64(i)}
		}
	}
	return v
}

func c03Special(r *Rng, mult int) c03Doc {
	switch r.Weighted([]int{10, 10, 10, 8, 8, 8, 8, 10, 10, 8, 10}) {
	case 0:
		return c03Doc{"empty-obj", map[string]interface{}{}}
	case 1:
		return c03Doc{"empty-arr", []interface{}{}}
	case 2:
		return c03Doc{"null", nil}
	case 3:
		return c03Doc{"num", float64(r.Range(-2, 5))}
	case 4:
		return c03Doc{"str", r.Pick(StrVals)}
	case 5:
		return c03Doc{"bool", r.Chance(50)}
	case 6:
		return c03Doc{"nested-empty", []interface{}{[]interface{}{}, map[string]interface{}{}, map[string]interface{}{"a": []interface{}{}, "b": map[string]interface{}{}}, nil}}
	case 7:
		n := r.Range(6, 200)
		a := make([]interface{}, n)
		for i := range a {
			a[i] = float64(i)
		}
		return c03Doc{"long-arr", a}
	case 8:
		if mult >= 3 {
			return c03Doc{"deep", c03Deep(r, 8)}
		}
		return c03Doc{"deep", c03Deep(r, 40)}
	case 9:
		n := r.Range(2, 40)
		a := make([]interface{}, n)
		for i := range a {
			a[i] = map[string]interface{}{"a": float64(i % 3), "b": []interface{}{float64(i)}, r.Pick(BaseKeys): r.Pick(StrVals)}
		}
		return c03Doc{"records", a}
	}
	return c03Doc{"nulls", map[string]interface{}{"a": nil, "b": []interface{}{nil, nil}, "c": map[string]interface{}{"a": nil}}}
}

func c03Docs(r *Rng, base interface{}, hasBase bool, mult int) []c03Doc {
	var out []c03Doc
	add := func(kind string, d interface{}) {
		out = append(out, c03Doc{kind, d})
		switch r.Weighted([]int{50, 35, 15}) {
		case 1:
			out = append(out, c03Doc{kind + "+jnum", c03Jnum(d, nil)})
		case 2:
			out = append(out, c03Doc{kind + "+jnum", c03Jnum(d, r)})
		}
	}
	if hasBase {
		add("base", base)
		if r.Chance(30) {
			add("base-odd", c03Perturb(base, r))
		}
	}
	o := c02Opts(r)
	add("random", GenDoc(r, o, 0))
	sp := c03Special(r, mult)
	add(sp.kind, sp.doc)
	if r.Chance(50) {
		sp = c03Special(r, mult)
		add(sp.kind, sp.doc)
	}
	if suite := c02Suite(); len(suite) > 0 && r.Chance(30) {
		if d, ok := c02Decode(suite[r.Intn(len(suite))].Input); ok {
			add("suite", d)
		}
	}
	return out
}

// ---------- the oracle ----------

var c03FailFns = []string{"failAll", "failAll", "failOdd", "twice"}

var c03FuncRe = regexp.MustCompile(`(?s)^function failed \(function=(.*), error=(.*)\)$`)
var c03FnTextRe = regexp.MustCompile(`^\.([-_a-zA-Z0-9]+)\(\)$`)

func c03Check(o Outcome, acc bool, rc *c03Rec) string {
	if msg := c02CheckCall(o, acc); msg != "" {
		return msg
	}
	if o.OK {
		if o.Vals == nil {
			return "nil result with nil error"
		}
		return ""
	}
	if o.ErrKind == "func" {
		if rc.n == 0 {
			return "ErrorFunctionFailed although no registered function returned an error: " + o.Msg
		}
		m := c03FuncRe.FindStringSubmatch(o.Msg)
		if m == nil {
			return "unreadable ErrorFunctionFailed: " + o.Msg
		}
		names, ok := rc.texts[m[2]]
		if !ok {
			return "ErrorFunctionFailed carries an error no function returned during this call: " + o.Msg
		}
		fm := c03FnTextRe.FindStringSubmatch(m[1])
		found := false
		for _, name := range names {
			found = found || (fm != nil && fm[1] == name)
		}
		if !found {
			return fmt.Sprintf("ErrorFunctionFailed names %s but the error %s was returned by %s", m[1], m[2], strings.Join(names, ", "))
		}
	}
	return ""
}

func c03HasBig(s string) bool {
	run := 0
	for i := 0; i < len(s); i++ {
		if s[i] >= '0' && s[i] <= '9' {
			run++
			if run >= 10 {
				return true
			}
		} else {
			run = 0
		}
	}
	return false
}

func (c03) Exec(seed int64, i int, tier string) Record {
	r := CaseRng(seed, "C03", i)
	rc := &c03Rec{}
	rc.reset()
	acc := r.Chance(20)
	if i%50 == 7 {
		// class panic-probe (b11_helpers.go)
		viol, tags, info := b11PanicProbe(r, acc)
		rec := Record{Text: "(panic probe)", Tags: append(tags, "class:panic-probe"), Info: info, Viol: viol}
		if viol != "" {
			rec.Class = "after-panic"
		}
		if len(tags) > 0 {
			rec.Key = "panic-probe/" + strings.Join(tags, ",") + fmt.Sprint(acc)
		}
		return rec
	}
	if i%20 == 9 {
		// classes overlap-probe / kth-fault-probe (b15_overlap.go): no panic, no hang, result-or-error also when one parsed
		// function is evaluated on two documents at overlapping times and after a user function failed / panicked once
		return b15Case("C03", r)
	}
	sentinel := i%20 == 11
	if sentinel {
		rc.sentinel = c03Sentinels[r.Intn(len(c03Sentinels))]
	}
	var s, gen string
	var base interface{}
	var hasBase bool
	var f Parsed
	var cfg *jsonpath.Config
	genKind := r.Weighted([]int{34, 34, 10, 12, 5, 5})
	attempts := 0
	for ; attempts < 8 && f == nil; attempts++ {
		hasBase = false
		switch genKind {
		case 0:
			s, base, _ = c02GenValid(r)
			hasBase, gen = true, "valid"
		case 1:
			s, base, hasBase, gen = c02GenMutant(r)
		case 2:
			s, gen = c02GenSoup(r), "soup"
		case 3:
			s, gen = c02GenNumber(r), "number"
		case 4:
			s, gen = c02GenNest(r), "nest"
		case 5:
			en := c02Enum()
			s, gen = en[r.Intn(len(en))], "enum"
		}
		if sentinel && genKind <= 1 {
			// make sure a function fails: at the end of the path, inside a filter, or feeding an aggregate
			t := s
			switch r.Intn(4) {
			case 0:
				t = s + "." + r.Pick(c03FailFns) + "()"
			case 1:
				t = s + "." + r.Pick(c03FailFns) + "().count()"
			case 2:
				t = "$[?(" + "@" + strings.TrimPrefix(s, "$") + "." + r.Pick(c03FailFns) + "() != 'zz')]"
			case 3:
				t = s + "[?(@." + r.Pick(c03FailFns) + "())]"
			}
			if tf, _ := SafeParse(t, c03Config(t, acc, rc)); tf != nil {
				s = t
			}
		}
		cfg = c03Config(s, acc, rc)
		var po Outcome
		f, po = SafeParse(s, cfg)
		if f == nil && !c02IsParseErr(po.ErrKind) {
			// C02's business, but never let it pass silently
			return Record{Text: s, Viol: "Parse: abnormal outcome " + clip(po.Detail(), 600), Class: "parse-abnormal", Tags: []string{"gen:" + gen}}
		}
	}
	rec := Record{Text: s, Tags: []string{"gen:" + gen}, Info: map[string]interface{}{"acc": acc, "attempts": attempts}}
	if f == nil {
		rec.Tags = append(rec.Tags, "unparsable")
		return rec
	}
	if acc {
		rec.Tags = append(rec.Tags, "acc")
	}
	if sentinel {
		rec.Tags = append(rec.Tags, "class:sentinel-error")
		rec.Info["sentinel"] = fmt.Sprintf("%T %v", rc.sentinel, rc.sentinel)
	}
	if c03HasBig(s) {
		rec.Tags = append(rec.Tags, "bigint")
	}
	if len(c02FnNames(s)) > 0 {
		rec.Tags = append(rec.Tags, "functions")
	}
	docs := c03Docs(r, base, hasBase, c03Mult(s))
	kinds := map[string]bool{}
	for _, d := range docs {
		rc.reset()
		arg := DeepCopy(d.doc)
		t0 := time.Now()
		out := SafeCall(f, arg)
		el := time.Since(t0)
		k := "ok"
		if !out.OK {
			k = out.ErrKind
		}
		kinds[k] = true
		rec.Tags = append(rec.Tags, "doc:"+d.kind, "out:"+k)
		msg := c03Check(out, acc, rc)
		if msg == "" {
			if min, slow := c02TooSlow(el, func() { SafeCall(f, DeepCopy(d.doc)) }); slow {
				msg = fmt.Sprintf("evaluation took %v", min)
			}
		}
		if msg != "" && rec.Viol == "" {
			rec.Viol = fmt.Sprintf("%s [path %q, document kind %s, accessor mode %v]", msg, s, d.kind, acc)
			rec.Class = "eval-" + k
			rec.Doc = c03Text(d.doc)
		}
	}
	if rec.Doc == "" && len(docs) > 0 {
		rec.Doc = clip(c03Text(docs[0].doc), 2000)
	}
	var ks []string
	for _, k := range []string{"ok", "member", "type", "func", "panic"} {
		if kinds[k] {
			ks = append(ks, k)
		}
	}
	// non-trivial: something beyond the bare root was evaluated
	if strings.TrimSpace(s) != "$" {
		rec.Key = c02Skeleton(s, 16) + "/" + strings.Join(ks, ",") + fmt.Sprint(acc)
	}
	return rec
}

// c03Text prints a document with json.Number leaves as bare numbers.
func c03Text(v interface{}) string {
	bs, err := json.Marshal(v)
	if err != nil {
		return fmt.Sprintf("%#v", v)
	}
	return string(bs)
}
