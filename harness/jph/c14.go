package jph

import (
	"encoding/json"
	"fmt"
	"reflect"
	"regexp"
	"sort"
	"strconv"
	"strings"

	"github.com/AsaiYusuke/jsonpath"
)

// C14 — functions see every selected value once, in order; aggregates see all of them.
//
// Families of cases (recording functions log every call with its arguments):
//   tail   steps of every kind (filters inside them carry no functions) followed by 1..3 functions
//          in a random filter/aggregate order. Model-free oracle: the steps alone are evaluated
//          with the real library; the values they select, in order, are pushed through a
//          simulation of the call protocol (c14Simulate) which yields the expected call log, the
//          expected results and the set of functions that fail.
//   infil  prefix steps + a final filter `[?(OPERAND op literal)]` / `[?(OPERAND)]` whose
//          operand path ends in 1..2 functions. Model-free oracle: for every container selected
//          by the prefix (real library) and every member (`@` operand; once per container for a
//          `$` operand) the operand's steps are evaluated with the real library and pushed
//          through the same simulation.
//   logic  `$.c[*][?(Q)]` where Q combines 2..3 operands with `&&` / `||` in both written orders:
//          operands with a function in an `@`-rooted path (`@.a.f() > 1`, `@.a.f()`, `!@.a.f()`),
//          function-free `@`-operands, and `@`-free operands (`$.flag == true`, `$.x`, `!$.x`,
//          `1 == 1`, `$.max >= 2`, `$.max.g() >= 2`) that are true / false / about a missing member.
//          Model-free oracle (c14LogicEval): operands are evaluated left to right AS WRITTEN, every
//          function once per member that has the operand's value; the right operand of `&&` / `||`
//          is skipped only when the left one is a whole-container verdict that decides (a list of
//          length 1 in syntax_query_logical_and/or.go: an `@`-free operand, an operand no member
//          satisfies, or a container with at most one member).
//   any    functions anywhere (after the steps and inside arbitrary nested filters): only the
//          model comparison below.
// Every family: jpv-impl `calls f` must equal the recorded log, `run f` the outcome.
// Extra: the slice handed to an aggregate function still holds the same values after later
// evaluations (it is the function's own).

type c14 struct{}

func init() { Props["C14"] = c14{} }

func (c14) Count(tier string) int {
	if tier == "thorough" {
		return 600000
	}
	return 40000
}

type c14Sim struct {
	Calls    []string        // expected log, model format
	Out      []interface{}   // values that leave the last function
	Failed   map[string]bool // texts of the functions that returned an error
	FailedAt map[int]bool    // their positions in fns
	Unwrap   bool            // an aggregate received the elements of a single array
	NoInput  bool            // an aggregate was not called because nothing reached it
	AnyCalls bool
}

// c14Simulate pushes vals (in result order; single: the path that produced them is
// single-valued) through the functions, as the property states the protocol.
func c14Simulate(vals []interface{}, single bool, fns []Fn) c14Sim {
	return c14SimulateWith(vals, single, fns, filterImpl, aggImpl)
}

// c14SimulateWith: the same protocol with the given implementations of the registry's names.
func c14SimulateWith(vals []interface{}, single bool, fns []Fn, filterImpl map[string]func(interface{}) (interface{}, error),
	aggImpl map[string]func([]interface{}) (interface{}, error)) c14Sim {
	sim := c14Sim{Failed: map[string]bool{}, FailedAt: map[int]bool{}}
	cur := vals
	k := 0
	for k < len(fns) {
		// a run of filter functions: applied value by value, left to right
		j := k
		for j < len(fns) && !fns[j].Agg {
			j++
		}
		var next []interface{}
		for _, v := range cur {
			x, ok := v, true
			for gi, g := range fns[k:j] {
				sim.Calls = append(sim.Calls, "(ffn "+SexpString(g.Name)+" "+ValSexp(x)+")")
				r, err := filterImpl[g.Name](x)
				if err != nil {
					sim.Failed[g.Text] = true
					sim.FailedAt[k+gi] = true
					ok = false
					break
				}
				x = r
			}
			if ok {
				next = append(next, x)
			}
		}
		cur = next
		if j == len(fns) {
			break
		}
		// the aggregate: once, with everything selected before it
		a := fns[j]
		if len(cur) == 0 {
			sim.NoInput = true
			break
		}
		args := cur
		if single {
			if arr, ok := cur[0].([]interface{}); ok {
				args = arr
				sim.Unwrap = true
			}
		}
		call := "(afn " + SexpString(a.Name)
		if len(args) > 0 {
			call += " " + ValsSexp(args)
		}
		sim.Calls = append(sim.Calls, call+")")
		r, err := aggImpl[a.Name](args)
		if err != nil {
			sim.Failed[a.Text] = true
			sim.FailedAt[j] = true
			cur = nil
			break
		}
		cur = []interface{}{r}
		single = true
		k = j + 1
	}
	sim.Out = cur
	sim.AnyCalls = len(sim.Calls) > 0
	return sim
}

func c14Single(steps []*Step) bool {
	for _, s := range steps {
		if c12IsVgStep(s) {
			return false
		}
	}
	return true
}

func c14FnOrder(fns []Fn) string {
	s := ""
	for _, f := range fns {
		if f.Agg {
			s += "A"
		} else {
			s += "F"
		}
	}
	return s
}

// c14GenFns: n functions in a random filter/aggregate order.
func c14GenFns(r *Rng, n int) []Fn {
	fns := make([]Fn, n)
	for i := range fns {
		if r.Chance(50) {
			fns[i] = Fn{Name: FilterFns[r.Weighted([]int{28, 25, 25, 8, 14})]}
		} else {
			fns[i] = Fn{Agg: true, Name: AggFns[r.Weighted([]int{22, 25, 20, 25, 8})]}
		}
	}
	return fns
}

func c14Members(v interface{}) ([]interface{}, bool) {
	switch t := v.(type) {
	case []interface{}:
		return t, true
	case map[string]interface{}:
		return members(t), true
	}
	return nil, false
}

func (c14) Exec(seed int64, i int, tier string) Record {
	if i%20 == 11 {
		return c14RetrieveCase(CaseRng(seed, "C14", i))
	}
	r := CaseRng(seed, "C14", i)
	family := []string{"tail", "infil", "any", "logic"}[r.Weighted([]int{47, 21, 17, 15})]
	o := DefaultOpts()
	o.ErrBias = 6
	var doc interface{}
	for try := 0; try < 4; try++ {
		doc = GenDoc(r, o, 0)
		if _, ok := c14Members(doc); ok {
			break
		}
	}
	plain := Config(false, nil)
	var p *Path
	var expCalls []string // model-free expectation (tail, infil)
	infilTwoPaths := false
	var sim c14Sim // tail only
	var v0 Outcome // tail: the steps alone
	haveExp := false
	var opFns []Fn
	var opPath *Path
	var logicQ *Query
	var logicTags []string
	switch family {
	case "logic":
		doc, p, logicQ = c14GenLogic(r)
	case "tail":
		o.Funcs = false
		for try := 0; try < 6; try++ {
			p = o.genPathFrom(r, doc, doc, HeadRoot, 4, false)
			v0 = Run(Render(p, nil), doc, &plain)
			if v0.OK || r.Chance(10) {
				break
			}
		}
		p.Fns = c14GenFns(r, r.Weighted([]int{0, 40, 40, 20}))
	case "infil":
		o.Funcs = false
		var pre Outcome
		for try := 0; try < 6; try++ {
			p = o.genPathFrom(r, doc, doc, HeadRoot, 2, false)
			pre = Run(Render(p, nil), doc, &plain)
			if pre.OK {
				if _, ok := c14Members(pre.Vals[0]); ok || r.Chance(10) {
					break
				}
			}
		}
		var rep interface{}
		hasRep := false
		if pre.OK {
			if ms, ok := c14Members(pre.Vals[0]); ok && len(ms) > 0 {
				rep, hasRep = ms[r.Intn(len(ms))], true
			}
		}
		head := HeadCur
		if r.Chance(25) {
			head = HeadRoot
		}
		op := &Path{Head: head}
		var v interface{}
		var vok bool
		if head == HeadCur {
			op.Steps, v, vok = o.genSingleSteps(r, rep, hasRep, 2)
		} else {
			op.Steps, v, vok = o.genSingleSteps(r, doc, true, 2)
		}
		var q *Query
		if r.Chance(35) {
			if r.Chance(40) { // a value-group operand is allowed in an existence test
				if r.Chance(50) {
					op.Steps = append(op.Steps, &Step{Kind: StWild, Bracket: r.Chance(40)})
				} else {
					op.Steps = append(op.Steps, &Step{Kind: StUnion, Subs: []Sub{{Kind: SubSlice, S: i64(r.Range(-2, 1))}}})
				}
			}
			q = &Query{Kind: QExist, Neg: r.Chance(30), P: op}
		} else {
			cmpOp := r.Weighted([]int{35, 20, 12, 11, 11, 11})
			lit := litFor(r, v, vok)
			if cmpOp >= 2 && lit.Kind != LitNum {
				lit = Lit{Kind: LitNum, N: int64(r.Range(-2, 5))}
			}
			q = &Query{Kind: QCmp, Op: cmpOp, L: &Operand{Path: op}, R: &Operand{IsLit: true, Lit: lit}}
			if head == HeadRoot && r.Chance(55) {
				// the other operand is a function-free `@`-path that often misses or is mistyped: the `$`-operand
				// (and the function in it) must be evaluated all the same, once per filtered container
				o2 := o
				o2.ErrBias = 45
				other := &Path{Head: HeadCur}
				other.Steps, _, _ = o2.genSingleSteps(r, rep, hasRep, 2)
				q.R = &Operand{Path: other}
				infilTwoPaths = true
			}
			if r.Chance(30) {
				q.L, q.R = q.R, q.L
			}
		}
		op.Fns = c14GenFns(r, r.Weighted([]int{0, 65, 35}))
		opFns = op.Fns
		opPath = op
		p.Steps = append(p.Steps, &Step{Kind: StFilter, Q: q})
	default:
		o.Funcs = true
		for try := 0; try < 6; try++ {
			p = o.genPathFrom(r, doc, doc, HeadRoot, 4, true)
			if len(p.Fns) == 0 && r.Chance(50) {
				p.Fns = c14GenFns(r, r.Range(1, 3))
			}
			n := c12AddFns(r, o, p, 45)
			if n == 0 && len(p.Fns) == 0 {
				continue
			}
			cfg := Config(false, nil)
			if out := Run(Render(p, nil), doc, &cfg); out.OK || r.Chance(15) {
				break
			}
		}
	}
	jn := r.Chance(15)
	if jn {
		// the same document decoded with UseNumber (twice / max / failOdd then see json.Number)
		doc = ToJnum(doc)
	}
	if family == "infil" {
		Render(p, nil) // fills the function texts
		pre := Run(Render(&Path{Head: HeadRoot, Steps: p.Steps[:len(p.Steps)-1]}, nil), doc, &plain)
		if pre.OK {
			haveExp = true
			single := c14Single(opPath.Steps)
			opText := Render(&Path{Head: HeadRoot, Steps: opPath.Steps}, nil)
			for _, n := range pre.Vals {
				ms, ok := c14Members(n)
				if !ok {
					continue
				}
				if opPath.Head == HeadRoot {
					if ov := Run(opText, doc, &plain); ov.OK {
						expCalls = append(expCalls, c14Simulate(ov.Vals, single, opPath.Fns).Calls...)
					}
					continue
				}
				for _, m := range ms {
					if ov := Run(opText, m, &plain); ov.OK {
						expCalls = append(expCalls, c14Simulate(ov.Vals, single, opPath.Fns).Calls...)
					}
				}
			}
		}
	}
	if family == "logic" {
		Render(p, nil) // function texts
		haveExp = true
		root := doc.(map[string]interface{})
		seen := map[string]bool{}
		for _, cont := range root["c"].([]interface{}) {
			ms, _ := c14Members(cont)
			ev := &c14LogicEv{root: root, members: ms, tags: seen}
			ev.eval(logicQ)
			expCalls = append(expCalls, ev.calls...)
		}
		for t := range seen {
			logicTags = append(logicTags, t)
		}
		sort.Strings(logicTags)
	}
	if family == "tail" {
		Render(p, nil) // function texts
		v0 = Run(Render(&Path{Head: HeadRoot, Steps: p.Steps}, nil), doc, &plain)
		if v0.OK {
			sim = c14Simulate(v0.Vals, c14Single(p.Steps), p.Fns)
			expCalls = sim.Calls
		}
		haveExp = true
	}
	text := Render(p, r)
	rec := Record{Text: text, Doc: JSONText(doc), Info: map[string]interface{}{}, Tags: stepTags(p)}
	rec.Tags = append(rec.Tags, "family:"+family)
	if infilTwoPaths {
		rec.Tags = append(rec.Tags, "infil:fn-in-$-operand-vs-@-path")
	}
	rec.Tags = append(rec.Tags, logicTags...)
	if jn {
		rec.Tags = append(rec.Tags, "decode:jnum")
	}
	fail := func(class, what string) {
		if rec.Viol == "" {
			rec.Viol, rec.Class = what, class
			if strings.HasPrefix(class, "error-") && c15HasInnerWild(p) && c15HasEmptyObject(doc) {
				// the known defect of errors raised by a `*` inside a multi-name selector
				rec.Class = "inner-wild-error"
			}
		}
	}
	log := &c12Log{}
	cfg := c12RecConfig(false, log)
	var f Parsed
	var out Outcome
	if r.Chance(25) {
		// class config:several — further Config arguments after the first (b11_helpers.go): only the first counts
		later, desc := b11LaterConfigs(r, true)
		f, out = SafeParseMulti(text, append([]jsonpath.Config{cfg}, later...)...)
		rec.Tags = append(rec.Tags, fmt.Sprintf("config:several-%d", 1+len(later)))
		rec.Info["later_configs"] = desc
	} else {
		f, out = SafeParse(text, &cfg)
	}
	if f == nil {
		rec.Viol = "generated path was rejected by Parse: " + out.Detail()
		rec.Class = "parse-reject"
		return rec
	}
	out = SafeCall(f, doc)
	if c12Abnormal(out) {
		rec.Viol = "abnormal outcome: " + clip(out.Detail(), 600)
		rec.Class = "abnormal"
		return rec
	}
	nCalls := len(log.Calls)
	got := make([]string, nCalls)
	for k, c := range log.Calls {
		got[k] = c.Sexp()
	}
	if log.HasAccessor() {
		fail("accessor-argument", "a user function was handed a jsonpath.Accessor")
	}
	// ---- model-free oracle ----
	if haveExp {
		if e, g := strings.Join(expCalls, " "), strings.Join(got, " "); e != g {
			fail("call-protocol", "expected calls: "+clip(e, 500)+" / recorded: "+clip(g, 500))
			if family == "logic" {
				rec.Info["expected_calls"] = c14Readable(e)
				rec.Info["recorded_calls"] = c14Readable(g)
				rec.Info["rule"] = "operands of && / || are evaluated left to right as written, a function once per member that has the operand's value; the right operand is skipped only when the left one is a deciding verdict for the whole container"
			}
		}
	}
	if family == "tail" {
		switch {
		case !v0.OK:
			rec.Tags = append(rec.Tags, "prefix:fails")
			if out.OK {
				fail("result", "the steps alone fail ("+v0.Msg+") but with functions the path returns "+clip(ValsSexp(out.Vals), 300))
			}
		case len(sim.Out) > 0:
			if !out.OK {
				fail("result", "expected results "+clip(ValsSexp(sim.Out), 300)+", the path fails with "+out.Msg)
			} else if !reflect.DeepEqual(out.Vals, sim.Out) {
				fail("result", "expected results "+clip(ValsSexp(sim.Out), 300)+", got "+clip(ValsSexp(out.Vals), 300))
			}
		default:
			// nothing is left because functions failed
			if out.OK {
				fail("result", "every branch ends in a failed function, but the path returns "+clip(ValsSexp(out.Vals), 300))
			} else if out.ErrKind != "func" {
				fail("error-kind", "every branch ends in a failed function, but the error is "+out.Msg)
			} else if !sim.Failed[out.ErrText] {
				fail("error-function", "the error names "+out.ErrText+", which did not fail (failed: "+fmt.Sprint(sim.Failed)+")")
			}
		}
		if v0.OK {
			if c14Single(p.Steps) {
				rec.Tags = append(rec.Tags, "prefix:single")
			} else if len(v0.Vals) > 1 {
				rec.Tags = append(rec.Tags, "prefix:multi>1")
			} else {
				rec.Tags = append(rec.Tags, "prefix:multi=1")
			}
			if sim.Unwrap {
				rec.Tags = append(rec.Tags, "agg-arg:elements-of-single-array")
			}
			if sim.NoInput {
				rec.Tags = append(rec.Tags, "agg:not-reached")
			}
		}
		rec.Tags = append(rec.Tags, "fns:"+c14FnOrder(p.Fns))
	}
	if family == "infil" {
		rec.Tags = append(rec.Tags, "opfns:"+c14FnOrder(opFns))
		if !haveExp {
			rec.Tags = append(rec.Tags, "infil:model-only")
		}
	}
	// ---- an aggregate's argument slice is its own ----
	if nCalls > 0 {
		dirty := make([]interface{}, 24)
		for k := range dirty {
			dirty[k] = "dirt"
		}
		for k := 0; k < 3; k++ {
			Run("$.*.list()", dirty, &plain)
			Run("$[*]", dirty, nil)
		}
		for k, c := range log.Calls[:nCalls] {
			if c.Agg && ValsSexp(c.Args) != c.Snap {
				fail("arg-retention", fmt.Sprintf("the arguments of call %d (%s) changed after the call: now %s", k, c.Sexp(), clip(ValsSexp(c.Args), 300)))
				break
			}
		}
	}
	// ---- the model ----
	ds := ValSexp(doc)
	exp := "(q)"
	if nCalls > 0 {
		exp = "(q " + strings.Join(got, " ") + ")"
	}
	rec.Q = append(rec.Q,
		// C14_log_eq_calls: the log of Impl.run IS the denoted call sequence `calls` (the statement of the protocol), so a
		// difference here is a difference from the protocol, not merely from a model of the code
		LeanQ{Driver: "impl", Line: "(q calls f " + p.Sexp() + " " + ds + ")", Expect: exp, What: "recorded calls vs the call protocol (Calls.calls = log of Impl.run, C14_log_eq_calls)", Oracle: true},
		LeanQ{Driver: "impl", Line: "(q run f " + p.Sexp() + " " + ds + ")", Expect: out.ImplExpect(true), What: "outcome vs Impl.run"})
	kind := "err-" + out.ErrKind
	if out.OK {
		kind = "ok"
	}
	rec.Tags = append(rec.Tags, "outcome:"+kind)
	nf, na := 0, 0
	for _, c := range log.Calls[:nCalls] {
		if c.Agg {
			na++
		} else {
			nf++
		}
	}
	if nf > 0 {
		rec.Tags = append(rec.Tags, "called:filter-fn")
	}
	if na > 0 {
		rec.Tags = append(rec.Tags, "called:aggregate-fn")
	}
	if nCalls > 0 {
		rec.Key = family + "/" + shapeKey(p) + "/" + c14FnOrder(opFns) + "/" + kind + fmt.Sprint(nCalls > 1, jn) + strings.Join(logicTags, ",")
	}
	return rec
}

// ---------- family `logic`: `&&` / `||` over `@`-rooted operands with functions and `@`-free operands ----------

func c14KeyPath(head int, keys ...string) *Path {
	p := &Path{Head: head}
	for _, k := range keys {
		p.Steps = append(p.Steps, &Step{Kind: StChild, Key: k})
	}
	return p
}

// c14LogicFns: mostly one or two filter functions that keep numbers numbers; sometimes any mixture.
func c14LogicFns(r *Rng) []Fn {
	if r.Chance(20) {
		return c14GenFns(r, r.Range(1, 2))
	}
	n := r.Weighted([]int{0, 75, 25})
	fns := make([]Fn, n)
	for i := range fns {
		fns[i] = Fn{Name: []string{"id", "twice", "failOdd", "failAll", "wrap"}[r.Weighted([]int{35, 30, 20, 8, 7})]}
	}
	return fns
}

func c14LogicCmp(r *Rng, p *Path) *Query {
	q := &Query{Kind: QCmp, Op: []int{0, 2, 3, 4, 5}[r.Weighted([]int{20, 15, 15, 30, 20})],
		L: &Operand{Path: p}, R: &Operand{IsLit: true, Lit: Lit{Kind: LitNum, N: int64(r.Range(-1, 4))}}}
	if r.Chance(20) {
		// `1 < @.a.f()`: the literal written first
		q.L, q.R = q.R, q.L
		q.Op = []int{0, 1, 4, 5, 2, 3}[q.Op]
	}
	return q
}

// c14LogicCur: an operand about the current member.
func c14LogicCur(r *Rng) *Query {
	if r.Chance(15) {
		// function-free: `@.b`, `@.a > 1`
		if r.Chance(50) {
			return &Query{Kind: QExist, Neg: r.Chance(25), P: c14KeyPath(HeadCur, r.Pick([]string{"a", "b"}))}
		}
		return c14LogicCmp(r, c14KeyPath(HeadCur, "a"))
	}
	p := c14KeyPath(HeadCur, "a")
	p.Fns = c14LogicFns(r)
	if r.Chance(35) {
		return &Query{Kind: QExist, Neg: r.Chance(25), P: p}
	}
	return c14LogicCmp(r, p)
}

// c14LogicFree: an operand that does not mention `@`.
func c14LogicFree(r *Rng) *Query {
	switch r.Weighted([]int{22, 16, 8, 10, 14, 18, 12}) {
	case 0:
		return &Query{Kind: QCmp, Op: 0, L: &Operand{Path: c14KeyPath(HeadRoot, "flag")}, R: &Operand{IsLit: true, Lit: Lit{Kind: LitBool, B: r.Chance(75)}}}
	case 1:
		return &Query{Kind: QExist, P: c14KeyPath(HeadRoot, r.Pick([]string{"x", "x", "nope"}))}
	case 2:
		return &Query{Kind: QExist, Neg: true, P: c14KeyPath(HeadRoot, r.Pick([]string{"x", "x", "nope"}))}
	case 3:
		return &Query{Kind: QCmp, Op: 0, L: &Operand{IsLit: true, Lit: Lit{Kind: LitNum, N: 1}}, R: &Operand{IsLit: true, Lit: Lit{Kind: LitNum, N: int64(r.Range(1, 2))}}}
	case 4:
		return c14LogicCmp(r, c14KeyPath(HeadRoot, "max"))
	case 5:
		p := c14KeyPath(HeadRoot, "max")
		p.Fns = c14LogicFns(r)
		return c14LogicCmp(r, p)
	}
	p := c14KeyPath(HeadRoot, "max")
	p.Fns = c14LogicFns(r)
	return &Query{Kind: QExist, Neg: r.Chance(25), P: p}
}

func c14GenLogic(r *Rng) (interface{}, *Path, *Query) {
	num := func(lo, hi int) interface{} { return float64(r.Range(lo, hi)) }
	member := func() interface{} {
		switch r.Weighted([]int{68, 14, 6, 6, 6}) {
		case 0:
			m := map[string]interface{}{"a": num(-1, 5)}
			if r.Chance(25) {
				m["b"] = num(0, 2)
			}
			return m
		case 1:
			return map[string]interface{}{"b": num(0, 2)}
		case 2:
			return map[string]interface{}{"a": "s"}
		case 3:
			return map[string]interface{}{"a": []interface{}{num(0, 3), num(0, 3)}}
		}
		return num(0, 9)
	}
	nc := r.Weighted([]int{0, 75, 25})
	conts := make([]interface{}, nc)
	for k := range conts {
		n := r.Weighted([]int{5, 15, 25, 30, 25})
		if r.Chance(70) {
			l := make([]interface{}, n)
			for j := range l {
				l[j] = member()
			}
			conts[k] = l
		} else {
			m := map[string]interface{}{}
			for j := 0; j < n; j++ {
				m[string(rune('p'+j))] = member()
			}
			conts[k] = m
		}
	}
	doc := map[string]interface{}{"c": conts}
	if r.Chance(75) {
		doc["flag"] = r.Chance(55)
	}
	if r.Chance(60) {
		doc["x"] = num(0, 3)
	}
	if r.Chance(80) {
		doc["max"] = num(0, 4)
	}
	op := func() QKind {
		if r.Chance(50) {
			return QAnd
		}
		return QOr
	}
	var q *Query
	if r.Chance(70) {
		var a, b *Query
		switch r.Weighted([]int{45, 33, 16, 6}) {
		case 0:
			a, b = c14LogicCur(r), c14LogicFree(r)
		case 1:
			a, b = c14LogicFree(r), c14LogicCur(r)
		case 2:
			a, b = c14LogicCur(r), c14LogicCur(r)
		default:
			a, b = c14LogicFree(r), c14LogicFree(r)
		}
		q = &Query{Kind: op(), A: a, B: b}
	} else {
		leaf := func() *Query {
			if r.Chance(55) {
				return c14LogicCur(r)
			}
			return c14LogicFree(r)
		}
		x, y, z := leaf(), leaf(), leaf()
		if r.Chance(50) {
			q = &Query{Kind: op(), A: &Query{Kind: op(), A: x, B: y}, B: z}
		} else {
			q = &Query{Kind: op(), A: x, B: &Query{Kind: op(), A: y, B: z}}
		}
	}
	p := &Path{Head: HeadRoot, Steps: []*Step{{Kind: StChild, Key: "c"}, {Kind: StWild, Bracket: true}, {Kind: StFilter, Q: q}}}
	if r.Chance(25) {
		p.Steps = append(p.Steps, &Step{Kind: StChild, Key: "a"})
	}
	return doc, p, q
}

// c14LogicEv evaluates a `logic` query on one filtered container the way the property states it:
// left to right as written, skipping a right operand only after a deciding whole-container verdict.
type c14LogicEv struct {
	root    interface{}
	members []interface{}
	calls   []string
	tags    map[string]bool
}

// the value of one operand: a verdict for the whole container, or one truth value per member
type c14LogicVal struct {
	verdict bool
	v       bool
	per     []bool
}

func c14Num(v interface{}) (float64, bool) {
	switch t := v.(type) {
	case float64:
		return t, true
	case json.Number:
		f, err := t.Float64()
		return f, err == nil
	}
	return 0, false
}

// operand: the value of a path operand for `from` (nothing when a member is missing or a function fails).
func (e *c14LogicEv) operand(p *Path, from interface{}) (interface{}, bool) {
	v := from
	for _, s := range p.Steps {
		m, ok := v.(map[string]interface{})
		if !ok {
			return nil, false
		}
		if v, ok = m[s.Key]; !ok {
			return nil, false
		}
	}
	sim := c14Simulate([]interface{}{v}, true, p.Fns)
	e.calls = append(e.calls, sim.Calls...)
	if len(sim.Out) != 1 {
		return nil, false
	}
	return sim.Out[0], true
}

func c14LogicTruth(op int, l interface{}, lit Lit) bool {
	switch lit.Kind {
	case LitBool:
		b, ok := l.(bool)
		return ok && op == 0 && b == lit.B
	case LitNum:
		f, ok := c14Num(l)
		if !ok {
			return false
		}
		n := float64(lit.N)
		switch op {
		case 0:
			return f == n
		case 2:
			return f < n
		case 3:
			return f <= n
		case 4:
			return f > n
		case 5:
			return f >= n
		}
	}
	return false
}

func (e *c14LogicEv) collapse(per []bool) c14LogicVal {
	any := false
	for _, t := range per {
		any = any || t
	}
	switch {
	case len(per) == 0 || !any:
		return c14LogicVal{verdict: true, v: false}
	case len(per) == 1:
		return c14LogicVal{verdict: true, v: true}
	}
	return c14LogicVal{per: per}
}

// leaf: test(from) says whether the operand holds for one member / for the root.
func (e *c14LogicEv) leaf(head int, neg bool, test func(from interface{}) bool) c14LogicVal {
	var val c14LogicVal
	if head == HeadRoot {
		val = c14LogicVal{verdict: true, v: test(e.root)}
	} else {
		per := make([]bool, len(e.members))
		for k, m := range e.members {
			per[k] = test(m)
		}
		val = e.collapse(per)
	}
	if !neg {
		return val
	}
	if val.verdict {
		return c14LogicVal{verdict: true, v: !val.v}
	}
	per := make([]bool, len(val.per))
	for k, t := range val.per {
		per[k] = !t
	}
	return e.collapse(per)
}

func (e *c14LogicEv) eval(q *Query) c14LogicVal {
	switch q.Kind {
	case QExist:
		return e.leaf(q.P.Head, q.Neg, func(from interface{}) bool {
			_, ok := e.operand(q.P, from)
			return ok
		})
	case QCmp:
		l, rr, op := q.L, q.R, q.Op
		if l.IsLit && !rr.IsLit {
			l, rr, op = rr, l, []int{0, 1, 4, 5, 2, 3}[op]
		}
		if l.IsLit {
			return c14LogicVal{verdict: true, v: l.Lit.Kind == rr.Lit.Kind && l.Lit == rr.Lit}
		}
		return e.leaf(l.Path.Head, false, func(from interface{}) bool {
			v, ok := e.operand(l.Path, from)
			return ok && c14LogicTruth(op, v, rr.Lit)
		})
	}
	a := e.eval(q.A)
	and := q.Kind == QAnd
	side := func(x *Query) string {
		if c14MentionsCur(x) {
			return "@"
		}
		return "$"
	}
	written := "logic:written:" + side(q.A) + pick(and, "&&", "||").(string) + side(q.B)
	e.tags[written] = true
	if a.verdict && a.v != and {
		// `false && …`, `true || …`: the verdict decides, the right operand is not evaluated
		e.tags["logic:right-operand-skipped"] = true
		if c14HasFns(q.B) {
			e.tags[written+":function-operand-skipped"] = true
		}
		return a
	}
	b := e.eval(q.B)
	e.tags["logic:right-operand-evaluated"] = true
	switch {
	case a.verdict:
		return b // `true && b`, `false || b`
	case b.verdict:
		if b.v == and {
			return a // `a && true`, `a || false`
		}
		return b
	}
	per := make([]bool, len(a.per))
	for k := range per {
		if and {
			per[k] = a.per[k] && b.per[k]
		} else {
			per[k] = a.per[k] || b.per[k]
		}
	}
	return e.collapse(per)
}

func c14MentionsCur(q *Query) bool {
	switch q.Kind {
	case QAnd, QOr:
		return c14MentionsCur(q.A) || c14MentionsCur(q.B)
	case QExist:
		return q.P.Head == HeadCur
	case QCmp:
		return !q.L.IsLit && q.L.Path.Head == HeadCur || !q.R.IsLit && q.R.Path.Head == HeadCur
	}
	return false
}

func c14HasFns(q *Query) bool {
	switch q.Kind {
	case QAnd, QOr:
		return c14HasFns(q.A) || c14HasFns(q.B)
	case QExist:
		return len(q.P.Fns) > 0
	case QCmp:
		return !q.L.IsLit && len(q.L.Path.Fns) > 0 || !q.R.IsLit && len(q.R.Path.Fns) > 0
	}
	return false
}

var c14SexpStr = regexp.MustCompile(`\(s[ 0-9]*\)`)

// c14Readable: a call log with the `(s 102 …)` strings spelled as text.
func c14Readable(log string) string {
	return c14SexpStr.ReplaceAllStringFunc(log, func(m string) string {
		var b strings.Builder
		for _, f := range strings.Fields(m[2 : len(m)-1]) {
			n, _ := strconv.Atoi(f)
			b.WriteRune(rune(n))
		}
		return strconv.Quote(b.String())
	})
}

// ---------- class retrieve-sequence: jsonpath.Retrieve several times, a fresh Config each time ----------
//
// One case in twenty. The same path and document go through jsonpath.Retrieve two or three times in a
// row; every call gets a freshly built Config: new recording closures, and for every name of the
// registry either the registry's implementation or ANOTHER implementation under the same name
// (`twice` adds 1, `wrap` builds an object, `failAll` succeeds, `failOdd` fails on even numbers,
// `count` adds 100, `max` is the minimum, `first` the last, `list` reversed, `failAgg` the length).
// Every call must call the functions of ITS OWN Config: the log recorded by its closures and its
// result are compared with (a) Parse + call under a Config with the same implementations, (b) for
// function tails after function-free steps the simulation of the call protocol (c14SimulateWith)
// with those implementations, and the closures of the other calls must stay silent meanwhile. The
// first call that uses the plain registry is also put to jpv-impl (`calls`).
var c14AltFilter = map[string]func(interface{}) (interface{}, error){
	"id": fnID,
	"twice": func(v interface{}) (interface{}, error) {
		if f, ok := v.(float64); ok {
			return f + 1, nil
		}
		return nil, errFn
	},
	"wrap":    func(v interface{}) (interface{}, error) { return map[string]interface{}{"w": v}, nil },
	"failAll": func(v interface{}) (interface{}, error) { return v, nil },
	"failOdd": func(v interface{}) (interface{}, error) {
		if f, ok := v.(float64); ok && int64(f)%2 == 0 {
			return nil, errFn
		}
		return v, nil
	},
}

var c14AltAgg = map[string]func([]interface{}) (interface{}, error){
	"count": func(vs []interface{}) (interface{}, error) { return float64(len(vs) + 100), nil },
	"max": func(vs []interface{}) (interface{}, error) {
		if len(vs) == 0 {
			return nil, errFn
		}
		var m float64
		for i, v := range vs {
			f, ok := v.(float64)
			if !ok {
				return nil, errFn
			}
			if i == 0 || f < m {
				m = f
			}
		}
		return m, nil
	},
	"first": func(vs []interface{}) (interface{}, error) {
		if len(vs) == 0 {
			return nil, errFn
		}
		return vs[len(vs)-1], nil
	},
	"list": func(vs []interface{}) (interface{}, error) {
		out := make([]interface{}, len(vs))
		for i, v := range vs {
			out[len(vs)-1-i] = v
		}
		return out, nil
	},
	"failAgg": func(vs []interface{}) (interface{}, error) { return float64(len(vs)), nil },
}

// c14ImplSet: for every name the registry's implementation or the other one (alt[name]).
func c14ImplSet(alt map[string]bool) (map[string]func(interface{}) (interface{}, error), map[string]func([]interface{}) (interface{}, error)) {
	fi := map[string]func(interface{}) (interface{}, error){}
	ai := map[string]func([]interface{}) (interface{}, error){}
	for n, f := range filterImpl {
		fi[n] = f
		if alt[n] {
			fi[n] = c14AltFilter[n]
		}
	}
	for n, f := range aggImpl {
		ai[n] = f
		if alt[n] {
			ai[n] = c14AltAgg[n]
		}
	}
	return fi, ai
}

// c14RecConfigWith: a Config with fresh recording closures around the given implementations.
func c14RecConfigWith(fi map[string]func(interface{}) (interface{}, error), ai map[string]func([]interface{}) (interface{}, error), log *c12Log) jsonpath.Config {
	c := jsonpath.Config{}
	for name, f := range fi {
		name, f := name, f
		c.SetFilterFunction(name, func(v interface{}) (interface{}, error) {
			r, err := f(v)
			log.Calls = append(log.Calls, c12Call{Name: name, Arg: v, Snap: ValSexp(v), Err: err != nil, Acc: c12IsAcc(v)})
			return r, err
		})
	}
	for name, f := range ai {
		name, f := name, f
		c.SetAggregateFunction(name, func(vs []interface{}) (interface{}, error) {
			r, err := f(vs)
			log.Calls = append(log.Calls, c12Call{Agg: true, Name: name, Args: vs, Snap: ValsSexp(vs), Err: err != nil})
			return r, err
		})
	}
	AddDecoys(&c)
	return c
}

func c14RetrieveCase(r *Rng) Record {
	o := DefaultOpts()
	o.ErrBias = 6
	var doc interface{}
	for try := 0; try < 4; try++ {
		doc = GenDoc(r, o, 0)
		if _, ok := c14Members(doc); ok {
			break
		}
	}
	plain := Config(false, nil)
	var p *Path
	tail := r.Chance(65)
	if tail {
		o.Funcs = false
		for try := 0; try < 6; try++ {
			p = o.genPathFrom(r, doc, doc, HeadRoot, 4, false)
			if Run(Render(p, nil), doc, &plain).OK {
				break
			}
		}
		p.Fns = c14GenFns(r, r.Weighted([]int{0, 45, 40, 15}))
	} else {
		o.Funcs = true
		for try := 0; try < 6; try++ {
			p = o.genPathFrom(r, doc, doc, HeadRoot, 4, true)
			if len(p.Fns) == 0 && r.Chance(50) {
				p.Fns = c14GenFns(r, r.Range(1, 3))
			}
			if n := c12AddFns(r, o, p, 45); n == 0 && len(p.Fns) == 0 {
				continue
			}
			if Run(Render(p, nil), doc, &plain).OK || r.Chance(15) {
				break
			}
		}
	}
	text := Render(p, r)
	N := 2 + r.Weighted([]int{60, 40})
	rec := Record{Text: text, Doc: JSONText(doc), Info: map[string]interface{}{}, Tags: append(stepTags(p), "family:retrieve-sequence")}
	if tail {
		rec.Tags = append(rec.Tags, "retrieve-sequence:tail", "fns:"+c14FnOrder(p.Fns))
	} else {
		rec.Tags = append(rec.Tags, "retrieve-sequence:any")
	}
	// which names the path uses
	used := map[string]bool{}
	for _, n := range c02FnNames(text) {
		used[n] = true
	}
	var names []string
	for n := range used {
		names = append(names, n)
	}
	sort.Strings(names)
	var v0 Outcome
	if tail {
		v0 = Run(Render(&Path{Head: HeadRoot, Steps: p.Steps}, nil), doc, &plain)
		Render(p, nil)
	}
	logs := make([]*c12Log, N)
	lens := make([]int, N)
	var variants []string
	askedLean := false
	anyCalls, anyAlt := false, false
	for k := 0; k < N; k++ {
		alt := map[string]bool{}
		var altNames []string
		mode := r.Weighted([]int{35, 45, 20}) // the registry / some names replaced / every used name replaced
		for _, n := range names {
			if n == "id" {
				continue
			}
			if mode == 2 || (mode == 1 && r.Chance(60)) {
				alt[n] = true
				altNames = append(altNames, n)
			}
		}
		variants = append(variants, "call "+fmt.Sprint(k)+": other implementations of ["+strings.Join(altNames, " ")+"]")
		anyAlt = anyAlt || len(altNames) > 0
		fi, ai := c14ImplSet(alt)
		logs[k] = &c12Log{}
		cfg := c14RecConfigWith(fi, ai, logs[k])
		out := c02Retrieve(text, doc, &cfg)
		if k == 0 && !out.OK && c02IsParseErr(out.ErrKind) {
			rec.Viol = "generated path was rejected: " + out.Detail()
			rec.Class = "parse-reject"
			return rec
		}
		if c12Abnormal(out) {
			rec.Viol = fmt.Sprintf("Retrieve %d of %d: abnormal outcome: %s", k+1, N, clip(out.Detail(), 600))
			rec.Class = "abnormal"
			return rec
		}
		got := logs[k].Sexps()
		// the closures of the other calls stayed silent
		for j := 0; j < k; j++ {
			if len(logs[j].Calls) != lens[j] {
				rec.Viol = fmt.Sprintf("Retrieve %d of %d (same path, same document, a fresh Config) called functions of the Config passed to Retrieve %d: %s; its own functions recorded: %s",
					k+1, N, j+1, clip(c14Readable((&c12Log{Calls: logs[j].Calls[lens[j]:]}).Sexps()), 400), clip(c14Readable(got), 300))
				rec.Class = "call-protocol"
				rec.Info["configs"] = variants
				return rec
			}
		}
		lens[k] = len(logs[k].Calls)
		anyCalls = anyCalls || lens[k] > 0
		// (a) Parse + call under a Config with the same implementations
		refLog := &c12Log{}
		refCfg := c14RecConfigWith(fi, ai, refLog)
		ref := Run(text, DeepCopy(doc), &refCfg)
		if e := refLog.Sexps(); e != got {
			rec.Viol = fmt.Sprintf("Retrieve %d of %d: the functions of its own Config recorded [%s]; Parse + call with the same implementations records [%s]", k+1, N, clip(c14Readable(got), 400), clip(c14Readable(e), 400))
			rec.Class = "call-protocol"
		} else if e, g := c05Canon(ref), c05Canon(out); e != g {
			rec.Viol = fmt.Sprintf("Retrieve %d of %d answers %s; Parse + call with the implementations of its own Config answers %s", k+1, N, clip(g, 300), clip(e, 300))
			rec.Class = "result"
		}
		// (b) the protocol itself, for function tails
		if rec.Viol == "" && tail && v0.OK {
			sim := c14SimulateWith(v0.Vals, c14Single(p.Steps), p.Fns, fi, ai)
			if e := strings.Join(sim.Calls, " "); e != got {
				rec.Viol = fmt.Sprintf("Retrieve %d of %d: expected calls (implementations of its own Config): %s / recorded: %s", k+1, N, clip(c14Readable(e), 400), clip(c14Readable(got), 400))
				rec.Class = "call-protocol"
			} else if len(sim.Out) > 0 && (!out.OK || !reflect.DeepEqual(out.Vals, sim.Out)) {
				rec.Viol = fmt.Sprintf("Retrieve %d of %d: expected results %s (implementations of its own Config), got %s", k+1, N, clip(ValsSexp(sim.Out), 300), clip(out.Detail(), 300))
				rec.Class = "result"
			} else if len(sim.Out) == 0 && out.OK {
				rec.Viol = fmt.Sprintf("Retrieve %d of %d: nothing is left after the functions of its own Config, but it returns %s", k+1, N, clip(ValsSexp(out.Vals), 300))
				rec.Class = "result"
			}
		}
		if rec.Viol != "" {
			rec.Info["configs"] = variants
			return rec
		}
		if len(altNames) == 0 && !askedLean {
			askedLean = true
			exp := "(q)"
			if lens[k] > 0 {
				exp = "(q " + got + ")"
			}
			rec.Q = append(rec.Q, LeanQ{Driver: "impl", Line: "(q calls f " + p.Sexp() + " " + ValSexp(doc) + ")", Expect: exp,
				What: fmt.Sprintf("calls recorded by Retrieve %d of %d vs Impl", k+1, N)})
		}
	}
	rec.Info["configs"] = variants
	rec.Tags = append(rec.Tags, fmt.Sprintf("retrieve-sequence:%d-calls", N))
	if anyAlt {
		rec.Tags = append(rec.Tags, "retrieve-sequence:other-implementation-under-same-name")
	}
	if anyCalls {
		rec.Tags = append(rec.Tags, "retrieve-sequence:functions-called")
		rec.Key = "retrieve-sequence/" + shapeKey(p) + "/" + c14FnOrder(p.Fns) + fmt.Sprint(N, anyAlt)
	}
	return rec
}
