package jph

import (
	"fmt"
	"reflect"
	"strings"
)

// C14 — functions see every selected value once, in order; aggregates see all of them.
//
// Families of cases (recording functions log every call with its arguments):
//   tail   steps of every kind (filters inside them carry no functions) followed by 1..3 functions
//          in a random filter/aggregate order. Model-free oracle: the steps alone are evaluated
//          with the real library; the values they select, in order, are pushed through a
//          simulation of the call protocol (c14Simulate) which yields the expected call log, the
//          expected results and the set of functions that fail.
//   infil  prefix steps + a final filter `[?(OPERAND op literal)]` / `[?(OPERAND)]` whose
//          operand path ends in 1..2 functions. Model-free oracle: for every container selected
//          by the prefix (real library) and every member (`@` operand; once per container for a
//          `$` operand) the operand's steps are evaluated with the real library and pushed
//          through the same simulation.
//   any    functions anywhere (after the steps and inside arbitrary nested filters): only the
//          model comparison below.
// Every family: jpv-impl `calls f` must equal the recorded log, `run f` the outcome.
// Extra: the slice handed to an aggregate function still holds the same values after later
// evaluations (it is the function's own).

type c14 struct{}

func init() { Props["C14"] = c14{} }

func (c14) Count(tier string) int {
	if tier == "thorough" {
		return 600000
	}
	return 40000
}

type c14Sim struct {
	Calls    []string        // expected log, model format
	Out      []interface{}   // values that leave the last function
	Failed   map[string]bool // texts of the functions that returned an error
	FailedAt map[int]bool    // their positions in fns
	Unwrap   bool            // an aggregate received the elements of a single array
	NoInput  bool            // an aggregate was not called because nothing reached it
	AnyCalls bool
}

// c14Simulate pushes vals (in result order; single: the path that produced them is
// single-valued) through the functions, as the property states the protocol.
func c14Simulate(vals []interface{}, single bool, fns []Fn) c14Sim {
	sim := c14Sim{Failed: map[string]bool{}, FailedAt: map[int]bool{}}
	cur := vals
	k := 0
	for k < len(fns) {
		// a run of filter functions: applied value by value, left to right
		j := k
		for j < len(fns) && !fns[j].Agg {
			j++
		}
		var next []interface{}
		for _, v := range cur {
			x, ok := v, true
			for gi, g := range fns[k:j] {
				sim.Calls = append(sim.Calls, "(ffn "+SexpString(g.Name)+" "+ValSexp(x)+")")
				r, err := filterImpl[g.Name](x)
				if err != nil {
					sim.Failed[g.Text] = true
					sim.FailedAt[k+gi] = true
					ok = false
					break
				}
				x = r
			}
			if ok {
				next = append(next, x)
			}
		}
		cur = next
		if j == len(fns) {
			break
		}
		// the aggregate: once, with everything selected before it
		a := fns[j]
		if len(cur) == 0 {
			sim.NoInput = true
			break
		}
		args := cur
		if single {
			if arr, ok := cur[0].([]interface{}); ok {
				args = arr
				sim.Unwrap = true
			}
		}
		call := "(afn " + SexpString(a.Name)
		if len(args) > 0 {
			call += " " + ValsSexp(args)
		}
		sim.Calls = append(sim.Calls, call+")")
		r, err := aggImpl[a.Name](args)
		if err != nil {
			sim.Failed[a.Text] = true
			sim.FailedAt[j] = true
			cur = nil
			break
		}
		cur = []interface{}{r}
		single = true
		k = j + 1
	}
	sim.Out = cur
	sim.AnyCalls = len(sim.Calls) > 0
	return sim
}

func c14Single(steps []*Step) bool {
	for _, s := range steps {
		if c12IsVgStep(s) {
			return false
		}
	}
	return true
}

func c14FnOrder(fns []Fn) string {
	s := ""
	for _, f := range fns {
		if f.Agg {
			s += "A"
		} else {
			s += "F"
		}
	}
	return s
}

// c14GenFns: n functions in a random filter/aggregate order.
func c14GenFns(r *Rng, n int) []Fn {
	fns := make([]Fn, n)
	for i := range fns {
		if r.Chance(50) {
			fns[i] = Fn{Name: FilterFns[r.Weighted([]int{28, 25, 25, 8, 14})]}
		} else {
			fns[i] = Fn{Agg: true, Name: AggFns[r.Weighted([]int{22, 25, 20, 25, 8})]}
		}
	}
	return fns
}

func c14Members(v interface{}) ([]interface{}, bool) {
	switch t := v.(type) {
	case []interface{}:
		return t, true
	case map[string]interface{}:
		return members(t), true
	}
	return nil, false
}

func (c14) Exec(seed int64, i int, tier string) Record {
	r := CaseRng(seed, "C14", i)
	family := []string{"tail", "infil", "any"}[r.Weighted([]int{55, 25, 20})]
	o := DefaultOpts()
	o.ErrBias = 6
	var doc interface{}
	for try := 0; try < 4; try++ {
		doc = GenDoc(r, o, 0)
		if _, ok := c14Members(doc); ok {
			break
		}
	}
	plain := Config(false, nil)
	var p *Path
	var expCalls []string // model-free expectation (tail, infil)
	infilTwoPaths := false
	var sim c14Sim // tail only
	var v0 Outcome // tail: the steps alone
	haveExp := false
	var opFns []Fn
	var opPath *Path
	switch family {
	case "tail":
		o.Funcs = false
		for try := 0; try < 6; try++ {
			p = o.genPathFrom(r, doc, doc, HeadRoot, 4, false)
			v0 = Run(Render(p, nil), doc, &plain)
			if v0.OK || r.Chance(10) {
				break
			}
		}
		p.Fns = c14GenFns(r, r.Weighted([]int{0, 40, 40, 20}))
	case "infil":
		o.Funcs = false
		var pre Outcome
		for try := 0; try < 6; try++ {
			p = o.genPathFrom(r, doc, doc, HeadRoot, 2, false)
			pre = Run(Render(p, nil), doc, &plain)
			if pre.OK {
				if _, ok := c14Members(pre.Vals[0]); ok || r.Chance(10) {
					break
				}
			}
		}
		var rep interface{}
		hasRep := false
		if pre.OK {
			if ms, ok := c14Members(pre.Vals[0]); ok && len(ms) > 0 {
				rep, hasRep = ms[r.Intn(len(ms))], true
			}
		}
		head := HeadCur
		if r.Chance(25) {
			head = HeadRoot
		}
		op := &Path{Head: head}
		var v interface{}
		var vok bool
		if head == HeadCur {
			op.Steps, v, vok = o.genSingleSteps(r, rep, hasRep, 2)
		} else {
			op.Steps, v, vok = o.genSingleSteps(r, doc, true, 2)
		}
		var q *Query
		if r.Chance(35) {
			if r.Chance(40) { // a value-group operand is allowed in an existence test
				if r.Chance(50) {
					op.Steps = append(op.Steps, &Step{Kind: StWild, Bracket: r.Chance(40)})
				} else {
					op.Steps = append(op.Steps, &Step{Kind: StUnion, Subs: []Sub{{Kind: SubSlice, S: i64(r.Range(-2, 1))}}})
				}
			}
			q = &Query{Kind: QExist, Neg: r.Chance(30), P: op}
		} else {
			cmpOp := r.Weighted([]int{35, 20, 12, 11, 11, 11})
			lit := litFor(r, v, vok)
			if cmpOp >= 2 && lit.Kind != LitNum {
				lit = Lit{Kind: LitNum, N: int64(r.Range(-2, 5))}
			}
			q = &Query{Kind: QCmp, Op: cmpOp, L: &Operand{Path: op}, R: &Operand{IsLit: true, Lit: lit}}
			if head == HeadRoot && r.Chance(55) {
				// the other operand is a function-free `@`-path that often misses or is mistyped: the `$`-operand
				// (and the function in it) must be evaluated all the same, once per filtered container
				o2 := o
				o2.ErrBias = 45
				other := &Path{Head: HeadCur}
				other.Steps, _, _ = o2.genSingleSteps(r, rep, hasRep, 2)
				q.R = &Operand{Path: other}
				infilTwoPaths = true
			}
			if r.Chance(30) {
				q.L, q.R = q.R, q.L
			}
		}
		op.Fns = c14GenFns(r, r.Weighted([]int{0, 65, 35}))
		opFns = op.Fns
		opPath = op
		p.Steps = append(p.Steps, &Step{Kind: StFilter, Q: q})
	default:
		o.Funcs = true
		for try := 0; try < 6; try++ {
			p = o.genPathFrom(r, doc, doc, HeadRoot, 4, true)
			if len(p.Fns) == 0 && r.Chance(50) {
				p.Fns = c14GenFns(r, r.Range(1, 3))
			}
			n := c12AddFns(r, o, p, 45)
			if n == 0 && len(p.Fns) == 0 {
				continue
			}
			cfg := Config(false, nil)
			if out := Run(Render(p, nil), doc, &cfg); out.OK || r.Chance(15) {
				break
			}
		}
	}
	jn := r.Chance(15)
	if jn {
		// the same document decoded with UseNumber (twice / max / failOdd then see json.Number)
		doc = ToJnum(doc)
	}
	if family == "infil" {
		Render(p, nil) // fills the function texts
		pre := Run(Render(&Path{Head: HeadRoot, Steps: p.Steps[:len(p.Steps)-1]}, nil), doc, &plain)
		if pre.OK {
			haveExp = true
			single := c14Single(opPath.Steps)
			opText := Render(&Path{Head: HeadRoot, Steps: opPath.Steps}, nil)
			for _, n := range pre.Vals {
				ms, ok := c14Members(n)
				if !ok {
					continue
				}
				if opPath.Head == HeadRoot {
					if ov := Run(opText, doc, &plain); ov.OK {
						expCalls = append(expCalls, c14Simulate(ov.Vals, single, opPath.Fns).Calls...)
					}
					continue
				}
				for _, m := range ms {
					if ov := Run(opText, m, &plain); ov.OK {
						expCalls = append(expCalls, c14Simulate(ov.Vals, single, opPath.Fns).Calls...)
					}
				}
			}
		}
	}
	if family == "tail" {
		Render(p, nil) // function texts
		v0 = Run(Render(&Path{Head: HeadRoot, Steps: p.Steps}, nil), doc, &plain)
		if v0.OK {
			sim = c14Simulate(v0.Vals, c14Single(p.Steps), p.Fns)
			expCalls = sim.Calls
		}
		haveExp = true
	}
	text := Render(p, r)
	rec := Record{Text: text, Doc: JSONText(doc), Info: map[string]interface{}{}, Tags: stepTags(p)}
	rec.Tags = append(rec.Tags, "family:"+family)
	if infilTwoPaths {
		rec.Tags = append(rec.Tags, "infil:fn-in-$-operand-vs-@-path")
	}
	if jn {
		rec.Tags = append(rec.Tags, "decode:jnum")
	}
	fail := func(class, what string) {
		if rec.Viol == "" {
			rec.Viol, rec.Class = what, class
			if strings.HasPrefix(class, "error-") && c15HasInnerWild(p) && c15HasEmptyObject(doc) {
				// the known defect of errors raised by a `*` inside a multi-name selector
				rec.Class = "inner-wild-error"
			}
		}
	}
	log := &c12Log{}
	cfg := c12RecConfig(false, log)
	f, out := SafeParse(text, &cfg)
	if f == nil {
		rec.Viol = "generated path was rejected by Parse: " + out.Detail()
		rec.Class = "parse-reject"
		return rec
	}
	out = SafeCall(f, doc)
	if c12Abnormal(out) {
		rec.Viol = "abnormal outcome: " + clip(out.Detail(), 600)
		rec.Class = "abnormal"
		return rec
	}
	nCalls := len(log.Calls)
	got := make([]string, nCalls)
	for k, c := range log.Calls {
		got[k] = c.Sexp()
	}
	if log.HasAccessor() {
		fail("accessor-argument", "a user function was handed a jsonpath.Accessor")
	}
	// ---- model-free oracle ----
	if haveExp {
		if e, g := strings.Join(expCalls, " "), strings.Join(got, " "); e != g {
			fail("call-protocol", "expected calls: "+clip(e, 500)+" / recorded: "+clip(g, 500))
		}
	}
	if family == "tail" {
		switch {
		case !v0.OK:
			rec.Tags = append(rec.Tags, "prefix:fails")
			if out.OK {
				fail("result", "the steps alone fail ("+v0.Msg+") but with functions the path returns "+clip(ValsSexp(out.Vals), 300))
			}
		case len(sim.Out) > 0:
			if !out.OK {
				fail("result", "expected results "+clip(ValsSexp(sim.Out), 300)+", the path fails with "+out.Msg)
			} else if !reflect.DeepEqual(out.Vals, sim.Out) {
				fail("result", "expected results "+clip(ValsSexp(sim.Out), 300)+", got "+clip(ValsSexp(out.Vals), 300))
			}
		default:
			// nothing is left because functions failed
			if out.OK {
				fail("result", "every branch ends in a failed function, but the path returns "+clip(ValsSexp(out.Vals), 300))
			} else if out.ErrKind != "func" {
				fail("error-kind", "every branch ends in a failed function, but the error is "+out.Msg)
			} else if !sim.Failed[out.ErrText] {
				fail("error-function", "the error names "+out.ErrText+", which did not fail (failed: "+fmt.Sprint(sim.Failed)+")")
			}
		}
		if v0.OK {
			if c14Single(p.Steps) {
				rec.Tags = append(rec.Tags, "prefix:single")
			} else if len(v0.Vals) > 1 {
				rec.Tags = append(rec.Tags, "prefix:multi>1")
			} else {
				rec.Tags = append(rec.Tags, "prefix:multi=1")
			}
			if sim.Unwrap {
				rec.Tags = append(rec.Tags, "agg-arg:elements-of-single-array")
			}
			if sim.NoInput {
				rec.Tags = append(rec.Tags, "agg:not-reached")
			}
		}
		rec.Tags = append(rec.Tags, "fns:"+c14FnOrder(p.Fns))
	}
	if family == "infil" {
		rec.Tags = append(rec.Tags, "opfns:"+c14FnOrder(opFns))
		if !haveExp {
			rec.Tags = append(rec.Tags, "infil:model-only")
		}
	}
	// ---- an aggregate's argument slice is its own ----
	if nCalls > 0 {
		dirty := make([]interface{}, 24)
		for k := range dirty {
			dirty[k] = "dirt"
		}
		for k := 0; k < 3; k++ {
			Run("$.*.list()", dirty, &plain)
			Run("$[*]", dirty, nil)
		}
		for k, c := range log.Calls[:nCalls] {
			if c.Agg && ValsSexp(c.Args) != c.Snap {
				fail("arg-retention", fmt.Sprintf("the arguments of call %d (%s) changed after the call: now %s", k, c.Sexp(), clip(ValsSexp(c.Args), 300)))
				break
			}
		}
	}
	// ---- the model ----
	ds := ValSexp(doc)
	exp := "(q)"
	if nCalls > 0 {
		exp = "(q " + strings.Join(got, " ") + ")"
	}
	rec.Q = append(rec.Q,
		LeanQ{Driver: "impl", Line: "(q calls f " + p.Sexp() + " " + ds + ")", Expect: exp, What: "recorded calls vs Impl"},
		LeanQ{Driver: "impl", Line: "(q run f " + p.Sexp() + " " + ds + ")", Expect: out.ImplExpect(true), What: "outcome vs Impl.run"})
	kind := "err-" + out.ErrKind
	if out.OK {
		kind = "ok"
	}
	rec.Tags = append(rec.Tags, "outcome:"+kind)
	nf, na := 0, 0
	for _, c := range log.Calls[:nCalls] {
		if c.Agg {
			na++
		} else {
			nf++
		}
	}
	if nf > 0 {
		rec.Tags = append(rec.Tags, "called:filter-fn")
	}
	if na > 0 {
		rec.Tags = append(rec.Tags, "called:aggregate-fn")
	}
	if nCalls > 0 {
		rec.Key = family + "/" + shapeKey(p) + "/" + c14FnOrder(opFns) + "/" + kind + fmt.Sprint(nCalls > 1, jn)
	}
	return rec
}
