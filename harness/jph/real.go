package jph

import (
	"fmt"
	"regexp"
	"runtime/debug"

	"github.com/AsaiYusuke/jsonpath"
)

// Outcome of one call into the real library, canonicalised.
type Outcome struct {
	OK       bool
	Vals     []interface{}
	ErrKind  string // member / type / func / syntax / argument / notfound / notsupported / other:<type> / panic
	ErrText  string // the step text the error names
	Expected string
	Found    string
	Msg      string // full message
	Panic    string
	NilNil   bool // Parse returned (nil, nil)
	Both     bool // Parse returned a function and an error
}

var rePath = regexp.MustCompile(`(?s)path=(.*)\)$`)
var reType = regexp.MustCompile(`(?s)^type unmatched \(expected=(.*?), found=(.*?), path=(.*)\)$`)
var reFunc = regexp.MustCompile(`(?s)^function failed \(function=(.*), error=(.*)\)$`)

func classify(err error) Outcome {
	o := Outcome{Msg: err.Error()}
	switch err.(type) {
	case jsonpath.ErrorMemberNotExist:
		o.ErrKind = "member"
		if m := rePath.FindStringSubmatch(o.Msg); m != nil {
			o.ErrText = m[1]
		}
	case jsonpath.ErrorTypeUnmatched:
		o.ErrKind = "type"
		if m := reType.FindStringSubmatch(o.Msg); m != nil {
			o.Expected, o.Found, o.ErrText = m[1], m[2], m[3]
		}
	case jsonpath.ErrorFunctionFailed:
		o.ErrKind = "func"
		if m := reFunc.FindStringSubmatch(o.Msg); m != nil {
			o.ErrText = m[1]
		}
	case jsonpath.ErrorInvalidSyntax:
		o.ErrKind = "syntax"
	case jsonpath.ErrorInvalidArgument:
		o.ErrKind = "argument"
	case jsonpath.ErrorFunctionNotFound:
		o.ErrKind = "notfound"
	case jsonpath.ErrorNotSupported:
		o.ErrKind = "notsupported"
	default:
		o.ErrKind = fmt.Sprintf("other:%T", err)
	}
	return o
}

type Parsed func(src interface{}) ([]interface{}, error)

// SafeParse calls Parse under recover.
func SafeParse(path string, cfg *jsonpath.Config) (f Parsed, out Outcome) {
	defer func() {
		if e := recover(); e != nil {
			f = nil
			out = Outcome{ErrKind: "panic", Panic: fmt.Sprintf("%v\n%s", e, debug.Stack())}
		}
	}()
	var fn func(src interface{}) ([]interface{}, error)
	var err error
	if cfg != nil {
		fn, err = jsonpath.Parse(path, *cfg)
	} else {
		fn, err = jsonpath.Parse(path)
	}
	if err != nil {
		out = classify(err)
		if fn != nil {
			out.Both = true
		}
		return nil, out
	}
	if fn == nil {
		return nil, Outcome{ErrKind: "nilnil", NilNil: true}
	}
	return fn, Outcome{OK: true}
}

// SafeCall calls a parsed function under recover.
func SafeCall(f Parsed, doc interface{}) (out Outcome) {
	defer func() {
		if e := recover(); e != nil {
			out = Outcome{ErrKind: "panic", Panic: fmt.Sprintf("%v\n%s", e, debug.Stack())}
		}
	}()
	vals, err := f(doc)
	if err != nil {
		out = classify(err)
		if vals != nil {
			out.Both = true
		}
		return out
	}
	return Outcome{OK: true, Vals: vals}
}

// Run = Parse + call, as Retrieve does.
func Run(path string, doc interface{}, cfg *jsonpath.Config) Outcome {
	f, o := SafeParse(path, cfg)
	if f == nil {
		return o
	}
	return SafeCall(f, doc)
}

// Short canonical text of an outcome: `ok v…` or `err kind`.
func (o Outcome) Canon() string {
	if o.OK {
		return "ok " + ValsSexp(o.Vals)
	}
	return "err"
}

func (o Outcome) Detail() string {
	if o.OK {
		return "ok " + ValsSexp(o.Vals)
	}
	if o.ErrKind == "panic" {
		return "panic " + o.Panic
	}
	return "err " + o.ErrKind + " " + o.Msg
}

// ParseTree parses with the tree hook on and returns the dump of the tree that was built
// (empty when Parse failed).
func ParseTree(path string, cfg *jsonpath.Config) (Parsed, Outcome, string) {
	jsonpath.VerifEnable(true)
	f, o := SafeParse(path, cfg)
	tree := jsonpath.VerifLastTree()
	jsonpath.VerifEnable(false)
	if f == nil {
		return nil, o, ""
	}
	return f, o, tree
}

// ImplExpect renders an outcome the way jpv-impl answers `run` (errors with their text).
func (o Outcome) ImplExpect(withText bool) string {
	if o.OK {
		s := "(q ok"
		for _, v := range o.Vals {
			s += " " + ResSexp(v)
		}
		return s + ")"
	}
	if !withText {
		return "(q err)"
	}
	switch o.ErrKind {
	case "member":
		return "(q (err member " + SexpString(o.ErrText) + "))"
	case "type":
		return "(q (err type " + SexpString(o.ErrText) + " " + SexpString(o.Expected) + " " + SexpString(o.Found) + "))"
	case "func":
		return "(q (err func " + SexpString(o.ErrText) + "))"
	}
	return "(q (abnormal " + o.ErrKind + "))"
}

// ResSexp prints one result: a plain value, or an accessor as `(acc V set?)` is handled by
// the accessor properties; here accessors print as their current value.
func ResSexp(v interface{}) string {
	if a, ok := v.(jsonpath.Accessor); ok {
		return ValSexp(a.Get())
	}
	return ValSexp(v)
}
